#!/bin/bash
# usage: check.sh <Cxx> [quick|thorough]
# Rebuilds the harness against /repo's current working tree (hooks on), then runs the check.
cd "$(dirname "$0")"
export GOFLAGS=-mod=mod GOPROXY=off GOSUMDB=off GOTOOLCHAIN=local
PROP=$1; TIER=${2:-quick}
LOG=$(mktemp /dev/shm/pogverif-buildlog.XXXXXX 2>/dev/null || mktemp)
RACE=true
if [ "$PROP" = "C10" ]; then RACE="tools/build.sh race"; fi
if ! { tools/build.sh && $RACE; } >"$LOG" 2>&1; then
  echo "BUILD FAILED (harness could not be built against the current tree):" >&2
  tail -40 "$LOG" >&2; rm -f "$LOG"
  exit 2
fi
rm -f "$LOG"
exec bin/pogverif check "$PROP" --tier "$TIER"
