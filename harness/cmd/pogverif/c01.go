package main

import (
	"fmt"
	"time"

	"github.com/akrylysov/pogreb/zzverif/explore"
)

// C01 (and the quiescent part of C11): every word of length <= d over {Put(k),Delete(k)} x 7
// engineered keys + {Compact, Sync}, from six engineered index states, under three segment
// configurations, checked after every step against the map model and the structural invariant.

type wordSpace struct {
	Base    string
	Cfg     string
	Seed    uint32
	Depth   int
	Letters []explore.Op
	Rotate  bool // rotate the answer to "draw a fresh hash seed" on every Open
}

func opsJSON(w []explore.Op) []string {
	var r []string
	for _, o := range w {
		r = append(r, o.String())
	}
	return r
}

// enumWords enumerates all words of exactly `depth` letters (prefixes are covered by the per-step
// oracle), dealing (first, second)-letter pairs to shards. visit runs one word; checkFrom is the
// first step (1-based) whose state has not been checked by an earlier word.
func enumWords(c *explore.Ctx, letters []explore.Op, depth int, visit func(word []explore.Op, checkFrom int) bool) {
	if depth <= 0 {
		return
	}
	idx := make([]int, depth)
	word := make([]explore.Op, depth)
	var rec func(pos int) bool
	rec = func(pos int) bool {
		if pos == depth {
			// step k's state is new iff all later letters are index 0
			checkFrom := depth
			for k := depth - 1; k >= 1; k-- {
				if idx[k] == 0 {
					checkFrom = k
				} else {
					break
				}
			}
			if checkFrom < 1 {
				checkFrom = 1
			}
			return visit(word, checkFrom)
		}
		for i := range letters {
			if pos == 1 || (depth == 1 && pos == 0) {
				if !c.Mine() {
					continue
				}
			}
			idx[pos] = i
			word[pos] = letters[i]
			if !rec(pos + 1) {
				return false
			}
		}
		return true
	}
	rec(0)
}

func c01Spaces(c *explore.Ctx) []wordSpace {
	var sp []wordSpace
	add := func(base, cfg string, seed uint32, depth int) {
		sp = append(sp, wordSpace{Base: base, Cfg: cfg, Seed: seed, Depth: depth})
	}
	bases := []string{"E", "CH", "CC", "SP", "ML", "HO"}
	if c.Thorough() {
		for _, b := range []string{"LCS", "LCM", "FL", "FL2", "FL3", "MS", "SC"} {
			add(b, "BIGC", 0, 3)
			add(b, "ROLL", 0, 2)
		}
		for _, b := range []string{"S2", "S3", "S4", "RU"} {
			add(b, "ROLL", 0, 4)
		}
		add("E", "ROLL", 0, 5)
		add("E", "BIGC", 0, 5)
		for _, b := range bases {
			add(b, "BIGC", 0, 4)
			add(b, "ROLL", 0, 4)
			add(b, "ROLL1", 0, 3)
			add(b, "BIGC", 1, 3)
			add(b, "BIGC", 0xffffffff, 3)
		}
	} else {
		for _, b := range bases {
			add(b, "BIGC", 0, 3)
		}
		for _, b := range []string{"E", "CH", "HO"} {
			add(b, "ROLL", 0, 3)
		}
		for _, b := range []string{"E", "SP"} {
			add(b, "ROLL1", 0, 2)
		}
		add("CH", "BIGC", 1, 2)
		add("CC", "BIGC", 0xffffffff, 2)
		for _, b := range []string{"LCS", "LCM", "FL", "FL2"} {
			add(b, "BIGC", 0, 2)
		}
	}
	return sp
}

func cfgByName(n string) explore.Config {
	if n == "BIGC" {
		return explore.BIGC
	}
	return explore.ConfigByName(n)
}

func runC01(c *explore.Ctx) {
	for _, sp := range c01Spaces(c) {
		if c.Expired() || c.NViolations() > 0 {
			return
		}
		base, err := explore.GetBase(sp.Base, cfgByName(sp.Cfg), sp.Seed)
		if err != nil {
			c.HarnessError("%v", err)
		}
		explore.PinSeed(sp.Seed)
		c.Note("layout_"+sp.Base+"_"+sp.Cfg, base.Layout)
		// self-test of the forge against the real hash function (binding)
		letters := explore.Letters(base.Alpha, explore.Compact, explore.Sync)
		enumWords(c, letters, sp.Depth, func(word []explore.Op, checkFrom int) bool {
			if c.Expired() {
				return false
			}
			v := runWordC01(c, base, sp, word, checkFrom)
			if v != nil {
				return !c.Violation(*v)
			}
			return true
		})
	}
}

func runWordC01(c *explore.Ctx, base *explore.Base, sp wordSpace, word []explore.Op, checkFrom int) *explore.Violation {
	s := base.NewSess()
	if err := s.OpenDB(); err != nil {
		return &explore.Violation{Key: fmt.Sprintf("open base=%s cfg=%s", sp.Base, sp.Cfg), What: "Open of a cleanly closed base failed: " + err.Error(), Size: 0,
			Replay: map[string]interface{}{"kind": "word", "base": sp.Base, "cfg": sp.Cfg, "seed": sp.Seed, "word": []string{}}}
	}
	defer func() {
		if s.DB != nil {
			_ = s.DB.Close()
		}
	}()
	c.Add("executions", 1)
	for i, o := range word {
		err := s.Apply(o)
		c.Add("transitions", 1)
		if err != nil {
			c.Add("op_errors", 1)
			c.Outcome("op_error", fmt.Sprintf("%s: %v", o.Kind, err))
		}
		if i+1 < checkFrom {
			continue
		}
		c.Add("states_checked", 1)
		if c.Distinct("state", explore.Hash64(sp.Base, sp.Cfg, fmt.Sprint(sp.Seed), s.FS.Hash())) {
			c.Add("new_states", 1)
		}
		if msg := s.Check(); msg != "" {
			w := word[:i+1]
			return &explore.Violation{
				Key:    fmt.Sprintf("base=%s cfg=%s seed=%d word=%s", sp.Base, sp.Cfg, sp.Seed, explore.WordString(w)),
				What:   fmt.Sprintf("after [%s] from base %s/%s: %s", explore.WordString(w), sp.Base, sp.Cfg, msg),
				Size:   len(w),
				Replay: map[string]interface{}{"kind": "word", "check": "C01", "base": sp.Base, "cfg": sp.Cfg, "seed": sp.Seed, "word": opsJSON(w), "observed": msg},
			}
		}
	}
	c.Sample(map[string]interface{}{"base": sp.Base, "cfg": sp.Cfg, "seed": sp.Seed, "word": opsJSON(word), "final_count": len(s.Model)})
	return nil
}

func init() {
	explore.Register(&explore.CheckInfo{
		Prop:  "C01",
		Level: "model_checking",
		Rule: "every word of length <= d over {Put,Delete} x 7 forged keys + {Compact,Sync} from engineered base states (E,CH,CC,SP,ML,HO) x segment configs, executed on the real pogreb over simfs; " +
			"after every step all read APIs, Count, a full Items scan and the structural index walk are compared with the map model; distinct = distinct file-system images (content hash) reached",
		Assumptions: []string{
			"keys are 8 bytes, values 4 bytes (nothing in pogreb branches on key/value content except through the hash, which the forge controls)",
			"depth bound as reported; longer histories are represented only through the engineered base states",
			"hashforge is validated against pogreb's hash function via the structural walk (stored hash == independent hash of the record's key)",
		},
		QuickBudget:   100 * time.Second,
		ThorBudget:    25 * time.Minute,
		Run:           runC01,
		EvalKey:       "executions",
		DistinctClass: "state",
		StatesKey:     "distinct:state",
		TransKey:      "transitions",
		TracesKey:     "executions",
	})
}
