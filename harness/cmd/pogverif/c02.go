package main

import (
	"fmt"
	"strings"
	"time"

	"github.com/akrylysov/pogreb/zzverif/explore"
	"github.com/akrylysov/pogreb/zzverif/refmodel"
	"github.com/akrylysov/pogreb/zzverif/simfs"
)

// C02: the C01 space with the extra letter Reopen (= Close must return nil, then Open), a forced
// Reopen after every word and a final write-free session.

func c02Spaces(c *explore.Ctx) []wordSpace {
	var sp []wordSpace
	add := func(base, cfg string, seed uint32, depth int) {
		sp = append(sp, wordSpace{Base: base, Cfg: cfg, Seed: seed, Depth: depth})
	}
	bases := []string{"E", "CH", "CC", "SP", "ML", "HO"}
	if c.Thorough() {
		for _, b := range bases {
			add(b, "BIGC", 0, 4)
			add(b, "ROLL", 0, 4)
			add(b, "ROLL1", 0, 3)
		}
	} else {
		for _, b := range bases {
			add(b, "BIGC", 0, 2)
		}
		for _, b := range []string{"E", "SP", "HO"} {
			add(b, "ROLL", 0, 3)
		}
		add("E", "ROLL1", 0, 3)
		add("ML", "BIGC", 0, 3)
		add("LCS", "BIGC", 0, 2)
		add("LCM", "BIGC", 0, 2)
		add("FL2", "BIGC", 0, 2)
		add("FL3", "BIGC", 0, 2)
	}
	// every record its own segment, ids freed by compaction and reused: sequence ids out of id order across a restart
	s2r1 := wordSpace{Base: "S2", Cfg: "ROLL1", Depth: 3}
	for _, r := range []string{"a", "b", "e"} {
		s2r1.Letters = append(s2r1.Letters, explore.Op{Kind: explore.Put, Key: r})
	}
	s2r1.Letters = append(s2r1.Letters, explore.Op{Kind: explore.Delete, Key: "a"}, explore.Op{Kind: explore.Compact})
	if c.Thorough() {
		s2r1.Depth = 5
	}
	sp = append(sp, s2r1)
	// free-list persistence: a base with a non-empty free list and two exactly full chains; reduced alphabet, deeper
	fl := wordSpace{Base: "FL", Cfg: "BIGC", Depth: 4}
	for _, r := range []string{"m2", "n0", "n1", "n2"} {
		fl.Letters = append(fl.Letters, explore.Op{Kind: explore.Put, Key: r})
	}
	for _, r := range []string{"m2", "n0", "n1"} {
		fl.Letters = append(fl.Letters, explore.Op{Kind: explore.Delete, Key: r})
	}
	if c.Thorough() {
		fl.Depth = 5
		add("LCS", "BIGC", 0, 3)
		add("LCM", "BIGC", 0, 3)
		add("FL", "BIGC", 0, 3)
		add("FL2", "BIGC", 0, 3)
		add("FL3", "BIGC", 0, 3)
	}
	sp = append(sp, fl)
	// hash-seed persistence: a database that becomes empty draws a fresh seed at its next Open; the harness
	// answers every draw differently, so a seed that is not persisted (or persisted once) shows after a restart
	rot := wordSpace{Base: "E", Cfg: "BIGC", Depth: 4, Rotate: true}
	for _, r := range []string{"a", "b", "c"} {
		rot.Letters = append(rot.Letters, explore.Op{Kind: explore.Put, Key: r})
	}
	for _, r := range []string{"a", "b"} {
		rot.Letters = append(rot.Letters, explore.Op{Kind: explore.Delete, Key: r})
	}
	rot.Letters = append(rot.Letters, explore.Op{Kind: explore.Compact})
	sp = append(sp, rot)
	rot2 := rot
	rot2.Base, rot2.Cfg, rot2.Depth = "S2", "ROLL", 4
	rot2.Letters = append(append([]explore.Op(nil), rot.Letters...), explore.Op{Kind: explore.Delete, Key: "e"})
	sp = append(sp, rot2)
	return sp
}

// noRecovery inspects the op log of an Open: no rename to *.bac, no re-acquired lock file, no truncation of a segment.
func noRecovery(ops []simfs.Op) string {
	for _, o := range ops {
		switch {
		case o.Kind == simfs.OpRename && strings.HasSuffix(o.Name2, ".bac"):
			return "Open after a clean Close ran recovery (moved " + o.Name + " aside)"
		case o.Kind == simfs.OpLockCreate && o.Existed:
			return "Open after a clean Close found the lock file still present"
		case o.Kind == simfs.OpTruncate && strings.HasSuffix(o.Name, refmodel.SegmentExt):
			return "Open after a clean Close truncated segment " + o.Name
		}
	}
	return ""
}

// replayEqualsModel: the independent decoder's replay of the segment files in sequence order equals the model.
func replayEqualsModel(s *explore.Sess) string {
	d := refmodel.ReplayDir(explore.SegmentFiles(s.FS))
	if d.Err != "" {
		return "independent replay: " + d.Err
	}
	got := explore.ModelFromDecode(d)
	if !s.Model.Equal(got) {
		return "independent replay of the segment files (sequence order) differs from the model: " + s.Model.Diff(got, s.KeyName)
	}
	return ""
}

// c02LongGrowth: one long history - 6000 keys inserted with a clean restart every 1500 (thorough: 20000 / 2500), a
// few overwrites and deletes per session: index files beyond 64 KiB, many levels, splits right after a restart.
// After every restart and at the end: all reads, Count, scan and the structural walk against the model.
func c02LongGrowth(c *explore.Ctx) *explore.Violation {
	total, every := 6000, 1500
	if c.Thorough() {
		total, every = 20000, 2500
	}
	mk := func(n int, msg string) *explore.Violation {
		return &explore.Violation{Key: fmt.Sprintf("long-growth keys=%d restart-every=%d", total, every), What: fmt.Sprintf("one session per %d inserted keys, after %d keys: %s", every, n, msg), Size: n,
			Replay: map[string]interface{}{"kind": "growth02", "total": total, "every": every, "observed": msg}}
	}
	explore.PinSeed(7)
	s := &explore.Sess{FS: simfs.New(), Cfg: explore.BIGC, Model: explore.Model{}, Keys: map[string][]byte{}, Seed: 7, BaseName: "(empty)"}
	if err := s.OpenDB(); err != nil {
		return mk(0, "Open: "+err.Error())
	}
	key := func(i int) []byte { return []byte(fmt.Sprintf("growth-key-%06d", i)) }
	for i := 0; i < total; i++ {
		k, v := key(i), fmt.Sprintf("val-%d", i)
		if err := s.DB.Put(k, []byte(v)); err != nil {
			return mk(i, "Put: "+err.Error())
		}
		s.Model[string(k)] = v
		if i%97 == 5 {
			d := key(i / 2)
			if err := s.DB.Delete(d); err != nil {
				return mk(i, "Delete: "+err.Error())
			}
			delete(s.Model, string(d))
		}
		if i%101 == 7 {
			o, v2 := key(i/3), fmt.Sprintf("over-%d", i)
			if _, ok := s.Model[string(o)]; ok {
				if err := s.DB.Put(o, []byte(v2)); err != nil {
					return mk(i, "Put: "+err.Error())
				}
				s.Model[string(o)] = v2
			}
		}
		c.Add("transitions", 1)
		if (i+1)%every == 0 || i == total-1 {
			if err := s.Apply(explore.Op{Kind: explore.Reopen}); err != nil {
				return mk(i+1, "Reopen: "+err.Error())
			}
			c.Add("reopens", 1)
			for k, v := range s.Model {
				got, err := s.DB.Get([]byte(k))
				if err != nil || string(got) != v {
					return mk(i+1, fmt.Sprintf("after the restart Get(%s)=%q, err=%v; want %q", k, got, err, v))
				}
			}
			if msg := s.Check(); msg != "" {
				return mk(i+1, "after the restart: "+msg)
			}
		}
	}
	_ = s.DB.Close()
	return nil
}

func runC02(c *explore.Ctx) {
	defer func() {
		// sessions that saw a failed call and then closed cleanly (see c04FaultCase): the restart must show the acknowledged
		// contents, with the failed operation applied or not, and a consistent index
		if !c.Expired() && c.NViolations() == 0 {
			c04FaultLayer(c)
		}
	}()
	if c.Mine() {
		c.Add("executions", 1)
		if v := c02LongGrowth(c); v != nil {
			c.Violation(*v)
			return
		}
	}
	for _, sp := range c02Spaces(c) {
		if c.Expired() || c.NViolations() > 0 {
			return
		}
		base, err := explore.GetBase(sp.Base, cfgByName(sp.Cfg), sp.Seed)
		if err != nil {
			c.HarnessError("%v", err)
		}
		explore.PinSeed(sp.Seed)
		letters := append([]explore.Op{{Kind: explore.Reopen}}, explore.Letters(base.Alpha, explore.Compact, explore.Sync)...)
		if sp.Letters != nil {
			letters = append([]explore.Op{{Kind: explore.Reopen}}, sp.Letters...)
		}
		sp := sp
		enumWords(c, letters, sp.Depth, func(word []explore.Op, checkFrom int) bool {
			if c.Expired() {
				return false
			}
			if v := runWordC02(c, base, sp, word, checkFrom); v != nil {
				return !c.Violation(*v)
			}
			return true
		})
	}
}

func runWordC02(c *explore.Ctx, base *explore.Base, sp wordSpace, word []explore.Op, checkFrom int) *explore.Violation {
	s := base.NewSess()
	s.FS.Record = true
	s.RotateSeed = sp.Rotate
	rot := ""
	if sp.Rotate {
		rot = " rotate-seed"
	}
	mk := func(w []explore.Op, msg string) *explore.Violation {
		return &explore.Violation{
			Key:    fmt.Sprintf("base=%s cfg=%s seed=%d%s word=%s", sp.Base, sp.Cfg, sp.Seed, rot, explore.WordString(w)),
			What:   fmt.Sprintf("after [%s] from base %s/%s%s: %s", explore.WordString(w), sp.Base, sp.Cfg, rot, msg),
			Size:   len(w),
			Replay: map[string]interface{}{"kind": "word02", "base": sp.Base, "cfg": sp.Cfg, "seed": sp.Seed, "rotate": sp.Rotate, "word": opsJSON(w), "observed": msg},
		}
	}
	start := len(s.FS.Log)
	if err := s.OpenDB(); err != nil {
		return mk(nil, "Open of the cleanly closed base failed: "+err.Error())
	}
	if msg := noRecovery(s.FS.Log[start:]); msg != "" {
		return mk(nil, msg)
	}
	defer func() {
		if s.DB != nil {
			_ = s.DB.Close()
		}
	}()
	c.Add("executions", 1)
	step := func(o explore.Op, w []explore.Op, check bool) *explore.Violation {
		err := s.Apply(o)
		c.Add("transitions", 1)
		if o.Kind == explore.Reopen {
			c.Add("reopens", 1)
			if err != nil {
				return mk(w, "Reopen failed: "+err.Error())
			}
			if msg := noRecovery(s.FS.Log[s.ReopenLogStart:]); msg != "" {
				return mk(w, msg)
			}
		} else if err != nil {
			c.Add("op_errors", 1)
		}
		if !check {
			return nil
		}
		c.Add("states_checked", 1)
		c.Distinct("state", explore.Hash64(sp.Base, sp.Cfg, fmt.Sprint(sp.Rotate), s.FS.Hash()))
		if msg := s.Check(); msg != "" {
			return mk(w, msg)
		}
		if msg := replayEqualsModel(s); msg != "" {
			return mk(w, msg)
		}
		return nil
	}
	for i, o := range word {
		if v := step(o, word[:i+1], i+1 >= checkFrom); v != nil {
			return v
		}
	}
	// forced Reopen, one more write, then a session without writes
	w := append(append([]explore.Op(nil), word...), explore.Op{Kind: explore.Reopen})
	if v := step(explore.Op{Kind: explore.Reopen}, w, true); v != nil {
		return v
	}
	w = append(w, explore.Op{Kind: explore.Put, Key: base.Alpha[0]})
	if v := step(w[len(w)-1], w, true); v != nil {
		return v
	}
	w = append(w, explore.Op{Kind: explore.Reopen})
	if v := step(explore.Op{Kind: explore.Reopen}, w, true); v != nil {
		return v
	}
	before := explore.SegmentFiles(s.FS)
	w = append(w, explore.Op{Kind: explore.Reopen})
	if v := step(explore.Op{Kind: explore.Reopen}, w, true); v != nil {
		return v
	}
	after := explore.SegmentFiles(s.FS)
	for n, b := range before {
		if len(b) > refmodel.HeaderSize && string(after[n]) != string(b) {
			return mk(w, "a session without writes changed segment "+n)
		}
	}
	c.Sample(map[string]interface{}{"base": sp.Base, "cfg": sp.Cfg, "word": opsJSON(w)})
	return nil
}

func init() {
	explore.Register(&explore.CheckInfo{
		Prop:  "C02",
		Level: "model_checking",
		Rule: "every word of length <= d over the C01 alphabet + Reopen (Close must return nil, then Open) from the engineered bases, followed by a forced Reopen, one Put, Reopen and a write-free session; " +
			"after every step: full contents/Count/structural walk vs map model, independent decoder replay (sequence order) == model; every reopening Open is checked on the FS op log to have run no recovery; distinct = distinct FS images; plus one long history (6000 keys, thorough 20000, a clean restart every 1500/2500 inserts with interleaved deletes and overwrites: index files far beyond 64 KiB, splits right after a restart) with the same oracles after every restart; plus sessions in which one operation of {Put(a),Put(b),Delete(a),Compact,Sync} was hit by a transient I/O error at each of its mutating file-system calls and that then closed cleanly: the restart must show the acknowledged contents with the failed operation applied or not, Count and index consistent",
		Assumptions:   []string{"sessions run on simfs; OS/OSMMap session alternation is covered by C17's differential", "depth bound as reported"},
		QuickBudget:   100 * time.Second,
		ThorBudget:    25 * time.Minute,
		Run:           runC02,
		EvalKey:       "executions",
		DistinctClass: "state",
		StatesKey:     "distinct:state",
		TransKey:      "transitions",
		TracesKey:     "executions",
	})
	replayers["word02"] = func(rep map[string]interface{}) (string, error) {
		word, err := parseWord(rep["word"])
		if err != nil {
			return "", err
		}
		seed := numField(rep, "seed")
		base, err := explore.GetBase(fmt.Sprint(rep["base"]), cfgByName(fmt.Sprint(rep["cfg"])), seed)
		if err != nil {
			return "", err
		}
		explore.PinSeed(seed)
		s := base.NewSess()
		s.FS.Record = true
		s.RotateSeed, _ = rep["rotate"].(bool)
		if err := s.OpenDB(); err != nil {
			return "Open: " + err.Error(), nil
		}
		for i, o := range word {
			err := s.Apply(o)
			fmt.Printf("  step %d %s -> err=%v\n", i+1, o, err)
			if o.Kind == explore.Reopen {
				if err != nil {
					return "Reopen failed: " + err.Error(), nil
				}
				if msg := noRecovery(s.FS.Log[s.ReopenLogStart:]); msg != "" {
					return msg, nil
				}
			}
			if msg := s.Check(); msg != "" {
				return fmt.Sprintf("after step %d (%s): %s", i+1, o, msg), nil
			}
			if msg := replayEqualsModel(s); msg != "" {
				return fmt.Sprintf("after step %d (%s): %s", i+1, o, msg), nil
			}
		}
		return "", nil
	}
}
