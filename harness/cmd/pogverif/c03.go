package main

import (
	"fmt"
	"time"

	"github.com/akrylysov/pogreb/zzverif/explore"
	"github.com/akrylysov/pogreb/zzverif/simfs"
)

// C03: every process-crash image inside the last operation of every history word.

type crashSpace struct {
	Base, Cfg string
	Depth     int
}

// c03BigLetters: records of two sizes, one of them larger than a whole segment, next to overwrites and
// deletes of the same key - the replay order of segments must follow the write order whatever segment a
// record of an unusual size is placed in (seed C16-s1).
func c03BigLetters() []explore.Op {
	return []explore.Op{
		{Kind: explore.PutBig, Key: "a"}, {Kind: explore.Put, Key: "a"}, {Kind: explore.Put, Key: "b"},
		{Kind: explore.Delete, Key: "a"}, {Kind: explore.Compact}, {Kind: explore.Reopen},
	}
}


func c03Letters() []explore.Op {
	return []explore.Op{
		{Kind: explore.Put, Key: "a"}, {Kind: explore.Put, Key: "b"}, {Kind: explore.Put, Key: "c"},
		{Kind: explore.Delete, Key: "a"}, {Kind: explore.Delete, Key: "b"},
		{Kind: explore.Compact}, {Kind: explore.Sync}, {Kind: explore.Reopen},
	}
}

// histRun is one executed history with per-operation log boundaries and models.
type histRun struct {
	S      *explore.Sess
	Base   *explore.Base
	Bounds []int           // Bounds[i] = log length before op i (op 0 = initial Open); len = nops+1
	Models []explore.Model // Models[i] = model after op i-1 returned (Models[0] = base model)
	Errs   []error
}

// runHistory executes Open + word on a recording clone of the base.
func runHistory(base *explore.Base, word []explore.Op) *histRun {
	h := &histRun{Base: base}
	s := base.NewSess()
	s.FS.Record = true
	h.S = s
	h.Bounds = append(h.Bounds, 0)
	h.Models = append(h.Models, s.Model.Clone())
	err := s.OpenDB()
	h.Errs = append(h.Errs, err)
	h.Bounds = append(h.Bounds, len(s.FS.Log))
	h.Models = append(h.Models, s.Model.Clone())
	if err != nil {
		return h
	}
	for _, o := range word {
		err := s.Apply(o)
		h.Errs = append(h.Errs, err)
		h.Bounds = append(h.Bounds, len(s.FS.Log))
		h.Models = append(h.Models, s.Model.Clone())
		if err != nil && s.DB == nil {
			break
		}
	}
	return h
}

type recMemo map[string]*explore.Recovered

func (m recMemo) get(img *simfs.FS, base *explore.Base, o explore.RecoverOpts) (*explore.Recovered, bool) {
	k := img.Hash()
	if r, ok := m[k]; ok {
		return r, false
	}
	r := explore.RecoverImage(img, base.Cfg, base.Keys, base.Probe, base.Seed, o)
	if len(m) >= 100000 {
		// the memo is a cache: bound its memory (long thorough runs)
		for x := range m {
			delete(m, x)
		}
	}
	m[k] = r
	return r, true
}

func runC03(c *explore.Ctx) {
	var spaces, bigSpaces []crashSpace
	if c.Thorough() {
		spaces = []crashSpace{{"E", "ROLL", 7}, {"E", "ROLL1", 6}, {"E", "BIGC", 6}, {"S2", "ROLL", 6}, {"S2", "ROLL1", 6}, {"CH", "ROLL", 5}, {"T", "BIGC", 6}, {"T3", "BIGC", 6}, {"S3", "ROLL", 5}, {"S4", "ROLL", 5}, {"SM", "ROLLM", 6}, {"RU", "ROLL", 6}, {"T!hdr3", "BIGC", 5}, {"S2!unclean", "ROLL", 5}, {"LG15", "ROLL1", 5}}
		bigSpaces = []crashSpace{{"E", "ROLL", 6}, {"S2", "ROLL", 5}, {"E", "BIGC", 5}}
	} else {
		spaces = []crashSpace{{"E", "ROLL", 3}, {"E", "ROLL1", 3}, {"S2", "ROLL", 3}, {"S2", "ROLL1", 3}, {"CH", "ROLL", 2}, {"T", "BIGC", 3}, {"T3", "BIGC", 2}, {"SM", "ROLLM", 3}, {"RU", "ROLL", 3},
			// the session starts with a recovery: 3 bytes of a torn size header at the end of the newest segment
			{"T!hdr3", "BIGC", 2}, {"LG15", "ROLL1", 2}}
		// records larger than a whole segment between ordinary ones
		bigSpaces = []crashSpace{{"E", "ROLL", 4}, {"S2", "ROLL", 3}}
	}
	for si, sp := range append(spaces, bigSpaces...) {
		letters := c03Letters()
		if si >= len(spaces) {
			letters = c03BigLetters()
		}
		if c.Expired() || c.NViolations() > 0 {
			return
		}
		base, err := baseVariant(sp.Base, cfgByName(sp.Cfg))
		if err != nil {
			c.HarnessError("%v", err)
		}
		explore.PinSeed(0)
		memo := recMemo{}
		sp := sp
		// crash points inside the initial Open (empty word)
		if c.Mine() {
			if v := crashWord(c, base, sp, nil, 0, memo); v != nil {
				c.Violation(*v)
			}
		}
		enumWords(c, letters, sp.Depth, func(word []explore.Op, checkFrom int) bool {
			if c.Expired() {
				return false
			}
			if v := crashWord(c, base, sp, word, checkFrom, memo); v != nil {
				return !c.Violation(*v)
			}
			return true
		})
	}
}

// crashWord enumerates the crash images inside operations checkFrom..len(word) (1-based; 0 = the initial Open).
func crashWord(c *explore.Ctx, base *explore.Base, sp crashSpace, word []explore.Op, checkFrom int, memo recMemo) *explore.Violation {
	h := runHistory(base, word)
	defer func() {
		if h.S.DB != nil {
			_ = h.S.DB.Close()
		}
	}()
	c.Add("executions", 1)
	log := h.S.FS.Log
	for op := checkFrom; op < len(h.Bounds)-1; op++ {
		w := word[:op]
		if h.Errs[op] != nil {
			c.Add("op_errors", 1)
			if op == 0 {
				return &explore.Violation{Key: "open base=" + sp.Base + " cfg=" + sp.Cfg, What: "Open of base failed: " + h.Errs[0].Error(), Replay: map[string]interface{}{"kind": "crash03", "base": sp.Base, "cfg": sp.Cfg, "word": []string{}}}
			}
			continue
		}
		c.Add("transitions", 1)
		from, to := h.Bounds[op], h.Bounds[op+1]
		m0, m1 := h.Models[op], h.Models[op+1]
		var viol *explore.Violation
		simfs.CrashImages(base.Image, log, from, to, func(im simfs.Image) bool {
			c.Add("images", 1)
			r, fresh := memo.get(im.FS, base, explore.RecoverOpts{Decoder: true})
			if fresh {
				c.Add("recoveries", 1)
				c.Distinct("image", explore.Hash64(sp.Base, sp.Cfg, im.FS.Hash()))
			}
			msg := explore.Admissible(r, m0, m1, im.Pos == to, h.S.KeyName)
			if msg == "" && r.Decoder != "" {
				msg = r.Decoder
			}
			if msg != "" {
				inflight := "Open"
				if op > 0 {
					inflight = word[op-1].String()
				}
				viol = &explore.Violation{
					Key:    fmt.Sprintf("base=%s cfg=%s word=%s pos=%d/%s", sp.Base, sp.Cfg, explore.WordString(w), im.Pos-from, im.Desc),
					What:   fmt.Sprintf("history [%s] from base %s/%s, crash inside %s after %d of its %d file-system calls (%s; next call: %s): %s", explore.WordString(w), sp.Base, sp.Cfg, inflight, im.Pos-from, to-from, im.Desc, opAt(log, im.Pos), msg),
					Size:   len(w)*1000 + (im.Pos - from),
					Replay: map[string]interface{}{"kind": "crash03", "base": sp.Base, "cfg": sp.Cfg, "seed": 0, "word": opsJSON(w), "pos": im.Pos, "variant": im.Desc, "observed": msg},
				}
				return false
			}
			return true
		})
		if viol != nil {
			return viol
		}
	}
	if len(word) > 0 {
		c.Sample(map[string]interface{}{"base": sp.Base, "cfg": sp.Cfg, "word": opsJSON(word), "fs_calls_logged": len(log)})
	}
	return nil
}

func opAt(log []simfs.Op, p int) string {
	if p < len(log) {
		return log[p].String()
	}
	return "none (operation complete)"
}

func init() {
	explore.Register(&explore.CheckInfo{
		Prop:  "C03",
		Level: "fault_enumeration",
		Rule: "for every word of length <= d over {Put(a),Put(b),Put(c),Delete(a),Delete(b),Compact,Sync,Reopen} (c collides with a in the full hash) from bases E/S2/CH/T: every file-system-call boundary inside the last operation (and inside the initial Open) " +
			"and every 512-aligned tear of every write is turned into a disk image, reopened with the real Open and compared with {acked state, acked + in-flight op}; also == independent decoder replay; distinct_nontrivial = distinct disk images (content hash) recovered",
		Assumptions:   []string{"process-crash model of the property: returned calls fully applied, in-flight write applied up to a 512-aligned file offset, directory operations atomic", "depth bound as reported"},
		QuickBudget:   100 * time.Second,
		ThorBudget:    25 * time.Minute,
		Run:           runC03,
		EvalKey:       "images",
		DistinctClass: "image",
	})
	replayers["crash03"] = func(rep map[string]interface{}) (string, error) {
		word, err := parseWord(rep["word"])
		if err != nil {
			return "", err
		}
		base, err := baseVariant(fmt.Sprint(rep["base"]), cfgByName(fmt.Sprint(rep["cfg"])))
		if err != nil {
			return "", err
		}
		explore.PinSeed(0)
		h := runHistory(base, word)
		pos := int(numField(rep, "pos"))
		op := len(h.Bounds) - 2
		img := simfs.CrashImageAt(base.Image, h.S.FS.Log, pos, fmt.Sprint(rep["variant"]))
		fmt.Printf("  image at log position %d (%s): %s\n", pos, rep["variant"], img.Describe())
		r := explore.RecoverImage(img, base.Cfg, base.Keys, base.Probe, 0, explore.RecoverOpts{Decoder: true})
		msg := explore.Admissible(r, h.Models[op], h.Models[op+1], pos == h.Bounds[op+1], h.S.KeyName)
		if msg == "" {
			msg = r.Decoder
		}
		return msg, nil
	}
}
