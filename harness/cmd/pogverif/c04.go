package main

import (
	"fmt"
	"os"
	"sort"
	"strings"
	"time"

	"github.com/akrylysov/pogreb/zzverif/explore"
	"github.com/akrylysov/pogreb/zzverif/simfs"
)

// C04: chains of (history, crash point) epochs, including crash points inside the recovering Open.

type epoch struct {
	Word    []string `json:"word"`
	Pos     int      `json:"pos"`
	Variant string   `json:"variant"`
}

type l1image struct {
	hash  string
	fs    *simfs.FS
	chain []epoch
	m0    explore.Model
	m1    explore.Model
	only1 bool
}

// collectImages enumerates all crash images of all words of length <= depth from base and returns the distinct ones.
// keep (optional) selects the images this worker is responsible for: the others are counted as seen but not retained
// (every worker enumerates the same list; holding every image's file system in every worker exhausted the machine's
// memory at thorough depths).
func collectImages(c *explore.Ctx, base *explore.Base, letters []explore.Op, depth int, chain []epoch, seen map[string]bool, tornOnly bool, keep ...func(hash string) bool) []*l1image {
	var res []*l1image
	visit := func(word []explore.Op, checkFrom int) bool {
		h := runHistory(base, word)
		defer func() {
			if h.S.DB != nil {
				_ = h.S.DB.Close()
			}
		}()
		log := h.S.FS.Log
		for op := checkFrom; op < len(h.Bounds)-1; op++ {
			if h.Errs[op] != nil {
				continue
			}
			from, to := h.Bounds[op], h.Bounds[op+1]
			simfs.CrashImages(base.Image, log, from, to, func(im simfs.Image) bool {
				c.Add("images_enumerated", 1)
				if tornOnly && im.Desc == "clean" && im.Pos != from && im.Pos != to {
					// keep every torn image and the images at operation boundaries
				}
				k := im.FS.Hash()
				if seen[k] {
					return true
				}
				seen[k] = true
				if len(keep) > 0 && !keep[0](k) {
					return true
				}
				ch := append(append([]epoch(nil), chain...), epoch{Word: opsJSON(word[:op]), Pos: im.Pos, Variant: im.Desc})
				res = append(res, &l1image{hash: k, fs: im.FS, chain: ch, m0: h.Models[op], m1: h.Models[op+1], only1: im.Pos == to})
				return true
			})
		}
		return true
	}
	visit(nil, 0)
	// enumerate without sharding: every worker sees the same list and picks its share by hash
	idx := make([]int, depth)
	word := make([]explore.Op, depth)
	var rec func(pos int)
	rec = func(pos int) {
		if pos == depth {
			checkFrom := depth
			for k := depth - 1; k >= 1; k-- {
				if idx[k] == 0 {
					checkFrom = k
				} else {
					break
				}
			}
			visit(word, checkFrom)
			return
		}
		for i := range letters {
			idx[pos] = i
			word[pos] = letters[i]
			rec(pos + 1)
		}
	}
	if depth > 0 {
		rec(0)
	}
	sort.Slice(res, func(i, j int) bool { return res[i].hash < res[j].hash })
	return res
}

func pseudoBase(base *explore.Base, img *simfs.FS, model explore.Model, level int) *explore.Base {
	b := *base
	b.Image = img
	b.Model = model
	b.NVal = base.NVal + 100*level
	b.Name = fmt.Sprintf("%s@epoch%d", base.Name, level)
	return &b
}

func chainViolation(sp crashSpace, chain []epoch, class, msg string) *explore.Violation {
	size := 0
	desc := ""
	for i, e := range chain {
		size += len(e.Word)*1000 + 1
		if i > 0 {
			desc += " => "
		}
		desc += fmt.Sprintf("[%v crash@%d %s]", e.Word, e.Pos, e.Variant)
	}
	return &explore.Violation{
		Key:    fmt.Sprintf("%s base=%s cfg=%s chain=%s", class, sp.Base, sp.Cfg, desc),
		What:   fmt.Sprintf("base %s/%s, epochs %s: %s", sp.Base, sp.Cfg, desc, msg),
		Size:   size,
		Replay: map[string]interface{}{"kind": "chain04", "base": sp.Base, "cfg": sp.Cfg, "seed": 0, "chain": chain, "class": class, "observed": msg},
	}
}

type c04Space struct {
	crashSpace
	D2, D3  int
	Letters []explore.Op // first-epoch alphabet (nil: the C03 alphabet)
}

func runC04(c *explore.Ctx) {
	var spaces []c04Space
	if c.Thorough() {
		spaces = []c04Space{{crashSpace{"T", "BIGC", 3}, 3, 1, nil}, {crashSpace{"T3", "BIGC", 3}, 3, 1, nil}, {crashSpace{"S2", "ROLL", 3}, 2, 1, nil}, {crashSpace{"E", "ROLL1", 3}, 2, 1, nil}, {crashSpace{"CH", "ROLL", 2}, 2, 0, nil}, {crashSpace{"S2", "ROLL", 1}, 4, 0, nil}, {crashSpace{"S3", "ROLL", 1}, 3, 0, nil}, {crashSpace{"RU", "ROLL", 2}, 3, 0, nil},
			{crashSpace{"SM", "ROLLM", 4}, 2, 0, []explore.Op{{Kind: explore.Put, Key: "a"}, {Kind: explore.Delete, Key: "a"}, {Kind: explore.Put, Key: "b"}, {Kind: explore.Compact}}}}
	} else {
		spaces = []c04Space{{crashSpace{"T", "BIGC", 2}, 2, 0, nil}, {crashSpace{"T3", "BIGC", 2}, 2, 0, nil}, {crashSpace{"S2", "ROLL", 2}, 2, 0, nil}, {crashSpace{"E", "ROLL1", 2}, 1, 0, nil},
			// few first-epoch images, longer second epochs: a recovered session, a clean restart, more writes, then the crash
			{crashSpace{"S2", "ROLL", 1}, 3, 0, nil},
			// segment ids reused out of sequence order: what recovery rebuilds per segment must land on the right segment
			{crashSpace{"RU", "ROLL", 1}, 2, 0, nil},
			// a sealed segment below the compaction minimum holds an old put of a: histories that put and delete a
			// again, crash, recover (segment metadata rebuilt by the replay) and then compact
			{crashSpace{"SM", "ROLLM", 3}, 1, 0, []explore.Op{{Kind: explore.Put, Key: "a"}, {Kind: explore.Delete, Key: "a"}, {Kind: explore.Put, Key: "b"}, {Kind: explore.Compact}}}}
	}
	for _, sp := range spaces {
		if c.Expired() || c.NViolations() > 0 {
			return
		}
		base, err := baseVariant(sp.Base, cfgByName(sp.Cfg))
		if err != nil {
			c.HarnessError("%v", err)
		}
		explore.PinSeed(0)
		seen := map[string]bool{}
		letters := sp.Letters
		if letters == nil {
			letters = c03Letters()
		}
		mine := func(hash string) bool { return int(explore.Hash64(hash)%uint64(c.NShards)) == c.Shard }
		l1 := collectImages(c, base, letters, sp.Depth, nil, seen, false, mine)
		c.Add("level1_distinct_images", int64(len(l1)))
		memo := recMemo{}
		for _, im := range l1 {
			if c.Expired() || c.NViolations() > 0 {
				return
			}
			if v := c04Image(c, base, sp, im, 1, memo); v != nil {
				c.Violation(*v)
			}
		}
	}
	if c.Expired() || c.NViolations() > 0 {
		return
	}
	c04FaultLayer(c)
}

// c04Image runs the level-(n+1) checks from one distinct image of level n.
func c04Image(c *explore.Ctx, base *explore.Base, sp c04Space, im *l1image, level int, memo recMemo) *explore.Violation {
	c.Add("executions", 1)
	c.Distinct("image", explore.Hash64(sp.Base, sp.Cfg, im.hash))
	r := explore.RecoverImage(im.fs.Clone(), base.Cfg, base.Keys, base.Probe, 0, explore.RecoverOpts{KeepLog: true})
	c.Add("images", 1)
	if msg := explore.Admissible(r, im.m0, im.m1, im.only1, func(k string) string { return fmt.Sprintf("%x", k) }); msg != "" {
		if level == 1 {
			// first-epoch failures are C03's business; they are counted here and reported there
			c.Add("level1_inadmissible_skipped", 1)
			return nil
		}
		return chainViolation(sp.crashSpace, im.chain, "epoch", msg)
	}
	if r.SizeMsg != "" {
		// diagnostic only: the behavioural consequences (append offset, lost writes) are what is reported
		c.Add("size_anchor_mismatches", 1)
		c.Note("size_anchor_example", r.SizeMsg)
	}
	acked := r.Contents
	// (a)+(b): crash anywhere inside the recovering Open, then recover again: same contents
	var viol *explore.Violation
	simfs.CrashImages(im.fs, r.OpenLog, 0, len(r.OpenLog), func(ci simfs.Image) bool {
		c.Add("images", 1)
		c.Add("crash_in_recovery_images", 1)
		r2, fresh := memo.get(ci.FS, base, explore.RecoverOpts{})
		if fresh {
			c.Add("recoveries", 1)
			c.Distinct("image", explore.Hash64(sp.Base, sp.Cfg, ci.FS.Hash()))
		}
		if msg := explore.Admissible(r2, acked, acked, true, func(k string) string { return fmt.Sprintf("%x", k) }); msg != "" {
			ch := append(append([]epoch(nil), im.chain...), epoch{Word: nil, Pos: ci.Pos, Variant: ci.Desc})
			viol = chainViolation(sp.crashSpace, ch, "crash-in-recovery", "crash inside the recovering Open, second recovery: "+msg)
			return false
		}
		return true
	})
	if viol != nil {
		return viol
	}
	// (c): life after recovery
	depth := sp.D2
	if level == 2 {
		depth = sp.D3
	}
	if depth == 0 {
		return nil
	}
	b2 := pseudoBase(base, im.fs, acked, level)
	idx := make([]int, depth)
	word := make([]explore.Op, depth)
	letters := c03Letters()
	var rec func(pos int) *explore.Violation
	rec = func(pos int) *explore.Violation {
		if pos == depth {
			checkFrom := depth
			for k := depth - 1; k >= 1; k-- {
				if idx[k] == 0 {
					checkFrom = k
				} else {
					break
				}
			}
			return c04Word(c, b2, sp, im.chain, word, checkFrom, memo)
		}
		for i := range letters {
			idx[pos] = i
			word[pos] = letters[i]
			if v := rec(pos + 1); v != nil {
				return v
			}
			if c.Expired() {
				return nil
			}
		}
		return nil
	}
	if v := rec(0); v != nil {
		return v
	}
	if level == 1 && sp.D3 > 0 {
		// level 3: distinct level-2 images of a reduced alphabet
		seen := map[string]bool{}
		reduced := []explore.Op{{Kind: explore.Put, Key: "a"}, {Kind: explore.Delete, Key: "a"}, {Kind: explore.Compact}, {Kind: explore.Reopen}}
		l2 := collectImages(c, b2, reduced, 1, im.chain, seen, false)
		for _, im2 := range l2 {
			if c.Expired() {
				return nil
			}
			if v := c04Image(c, base, sp, im2, 2, memo); v != nil {
				return v
			}
		}
	}
	c.Sample(map[string]interface{}{"base": sp.Base, "cfg": sp.Cfg, "chain": im.chain, "recovered_keys": len(acked)})
	return nil
}

// c04Word: history = recovering Open + word on the epoch image; crash images inside ops checkFrom.. .
func c04Word(c *explore.Ctx, b2 *explore.Base, sp c04Space, chain []epoch, word []explore.Op, checkFrom int, memo recMemo) *explore.Violation {
	h := runHistory(b2, word)
	defer func() {
		if h.S.DB != nil {
			_ = h.S.DB.Close()
		}
	}()
	log := h.S.FS.Log
	if h.Errs[0] != nil {
		return chainViolation(sp.crashSpace, chain, "open", "Open of the crash image failed: "+h.Errs[0].Error())
	}
	if h.S.FS.Stats.NonAppendSeg > 0 {
		// diagnostic only (a design that pre-allocates segment files would write inside the file legitimately): what the
		// property asks - acknowledged writes survive the next recovery - is judged on the crash images below
		c.Add("segment_writes_not_at_eof_after_recovery", 1)
		c.Note("segment_write_not_at_eof_example", h.S.FS.Stats.NonAppendDesc)
	}
	for op := checkFrom; op < len(h.Bounds)-1; op++ {
		if h.Errs[op] != nil {
			ch := append(append([]epoch(nil), chain...), epoch{Word: opsJSON(word[:op]), Pos: -1, Variant: "no crash"})
			return chainViolation(sp.crashSpace, ch, "op-error", fmt.Sprintf("after a recovery %s returned error: %v", word[op-1], h.Errs[op]))
		}
		c.Add("transitions", 1)
		from, to := h.Bounds[op], h.Bounds[op+1]
		m0, m1 := h.Models[op], h.Models[op+1]
		var viol *explore.Violation
		simfs.CrashImages(b2.Image, log, from, to, func(im simfs.Image) bool {
			c.Add("images", 1)
			r, fresh := memo.get(im.FS, b2, explore.RecoverOpts{})
			if fresh {
				c.Add("recoveries", 1)
				c.Distinct("image", explore.Hash64(sp.Base, sp.Cfg, im.FS.Hash()))
			}
			if msg := explore.Admissible(r, m0, m1, im.Pos == to, h.S.KeyName); msg != "" {
				ch := append(append([]epoch(nil), chain...), epoch{Word: opsJSON(word[:op]), Pos: im.Pos, Variant: im.Desc})
				viol = chainViolation(sp.crashSpace, ch, "epoch", msg)
				return false
			}
			return true
		})
		if viol != nil {
			return viol
		}
	}
	return nil
}

func init() {
	explore.Register(&explore.CheckInfo{
		Prop:  "C04",
		Level: "fault_enumeration",
		Rule: "epoch chains: every distinct crash image of every word of length <= d1 (C03 alphabet; bases T (torn tails), S2, E) is (a) recovered, and every crash image of the recovering Open's own op log recovered again (same contents); " +
			"(b) used as start state for every word of length <= d2 with every crash image inside each operation, reopened and compared with the cumulative acknowledged state +/- the in-flight op; segment in-memory size vs file length and non-appending segment writes after a recovery are recorded as diagnostics; thorough: a third epoch; distinct_nontrivial = distinct disk images recovered; (c) fault layer: for every operation of {Put(a),Put(b),Delete(a),Compact,Sync,Close} after every 0-/1-letter prefix a transient I/O error is injected at EACH mutating file-system call of the operation, Close of a written handle included (a data write writes nothing, or - second pass, segment padded so that the next record straddles a sector boundary - everything before the last 512-byte-aligned offset inside it); then the process dies, or does two more acknowledged Puts and dies: the next Open (a recovery) must succeed and show the acknowledged state with the failed operation applied or not (the continuation 'closes cleanly and exits' is judged by C02)",
		Assumptions:   []string{"process-crash model of the property", "d1/d2/d3 as listed in the notes; recovery results memoised per image content hash"},
		QuickBudget:   100 * time.Second,
		ThorBudget:    25 * time.Minute,
		Run:           runC04,
		EvalKey:       "images",
		DistinctClass: "image",
	})
	replayers["chain04"] = replayChain
}

func replayChain(rep map[string]interface{}) (string, error) {
	base, err := baseVariant(fmt.Sprint(rep["base"]), cfgByName(fmt.Sprint(rep["cfg"])))
	if err != nil {
		return "", err
	}
	explore.PinSeed(0)
	chainRaw, _ := rep["chain"].([]interface{})
	cur := base
	name := func(k string) string { return fmt.Sprintf("%x", k) }
	for i, e := range chainRaw {
		em := e.(map[string]interface{})
		word, err := parseWord(em["word"])
		if err != nil {
			return "", err
		}
		pos := int(int32(numFieldF(em, "pos")))
		h := runHistory(cur, word)
		fmt.Printf("  epoch %d: word %v, %d fs calls, crash at %d (%s)\n", i+1, opsJSON(word), len(h.S.FS.Log), pos, em["variant"])
		if h.Errs[0] != nil {
			return "Open failed: " + h.Errs[0].Error(), nil
		}
		for k, e := range h.Errs {
			if e != nil {
				return fmt.Sprintf("operation %d returned error: %v", k, e), nil
			}
		}
		if h.S.FS.Stats.NonAppendSeg > 0 {
			return "segment write not at EOF: " + h.S.FS.Stats.NonAppendDesc, nil
		}
		if pos < 0 {
			return "", nil
		}
		op := len(h.Bounds) - 2
		img := simfs.CrashImageAt(cur.Image, h.S.FS.Log, pos, fmt.Sprint(em["variant"]))
		r := explore.RecoverImage(img.Clone(), base.Cfg, base.Keys, base.Probe, 0, explore.RecoverOpts{})
		if len(word) == 0 && i > 0 {
			// crash inside the recovering Open: contents must equal the previous recovery's
			if msg := explore.Admissible(r, cur.Model, cur.Model, true, name); msg != "" {
				return msg, nil
			}
		} else if msg := explore.Admissible(r, h.Models[op], h.Models[op+1], pos == h.Bounds[op+1], name); msg != "" {
			return msg, nil
		}
		if r.SizeMsg != "" {
			return "after recovery " + r.SizeMsg, nil
		}
		cur = pseudoBase(base, img, r.Contents, i+1)
	}
	return "", nil
}

func numFieldF(m map[string]interface{}, k string) float64 {
	f, _ := m[k].(float64)
	return f
}

// ---------------------------------------------------------------------------------------------
// Fault layer: a session may also end because an operation failed. For every operation of a small
// menu, after every 0-/1-letter prefix, a transient I/O error is injected at EACH of the operation's
// mutating file-system calls; the operation then (usually) returns an error. Two continuations:
// (A) the process dies right there, (B) the process calls Close (which may fail too) and exits. The next
// process's Open must succeed and show the acknowledged state, optionally with the whole failed
// operation applied (an error return leaves "applied or not" open, never "half" or "something else").

func c04FaultLayer(c *explore.Ctx) {
	type bc struct{ b, cfg string }
	bcs := []bc{{"S2", "ROLL"}, {"S4", "ROLL"}, {"SM", "ROLLM"}, {"T", "BIGC"}}
	if c.Thorough() {
		bcs = append(bcs, bc{"CH", "BIGC"}, bc{"S3", "ROLL"}, bc{"S2", "ROLL1"}, bc{"E", "ROLL"})
	}
	ops := []explore.Op{{Kind: explore.Put, Key: "a"}, {Kind: explore.Put, Key: "b"}, {Kind: explore.Delete, Key: "a"}, {Kind: explore.Compact}, {Kind: explore.Sync}, {Kind: explore.Close}}
	prefixes := [][]explore.Op{{}, {{Kind: explore.Put, Key: "a"}}, {{Kind: explore.Delete, Key: "a"}}, {{Kind: explore.Delete, Key: "b"}}}
	for _, x := range bcs {
		base, err := explore.GetBase(x.b, cfgByName(x.cfg), 0)
		if err != nil {
			c.HarnessError("%v", err)
		}
		explore.PinSeed(0)
		memo := recMemo{}
		for _, pre := range prefixes {
			for _, o := range ops {
				if !c.Mine() {
					continue
				}
				for _, partial := range []bool{false, true} {
					for n := 1; n < 200; n++ {
						if c.Expired() || c.NViolations() > 0 {
							return
						}
						done, v := c04FaultCase(c, base, x.b, x.cfg, pre, o, n, memo, partial)
						if v != nil {
							c.Violation(*v)
							return
						}
						if done {
							break
						}
					}
				}
			}
		}
	}
}

// padSegment pads the current segment so that the next record straddles a 512-byte-aligned file offset (the only
// place where a sector-granular short write can leave a part of a record behind): it ends 8 bytes before one.
func padSegment(c *explore.Ctx, s *explore.Sess) string {
	sizes := map[string]int{}
	for _, nm := range s.FS.NamesIn(explore.DBPath) {
		sizes[nm] = len(s.FS.Bytes(explore.DBPath + "/" + nm))
	}
	pad := func(k string, vlen int) bool {
		v := strings.Repeat("p", vlen)
		if err := s.DB.Put([]byte(k), []byte(v)); err != nil {
			return false
		}
		s.Model[k] = v
		return true
	}
	if !pad("pad-key-1", 1) {
		return "padding Put failed"
	}
	for _, nm := range s.FS.NamesIn(explore.DBPath) {
		if n := len(s.FS.Bytes(explore.DBPath + "/" + nm)); strings.HasSuffix(nm, ".psg") && n != sizes[nm] {
			const k2 = "pad-key-2"
			if !pad(k2, ((504-n-10-len(k2))%512+512)%512) {
				return "padding Put failed"
			}
			if got := len(s.FS.Bytes(explore.DBPath+"/"+nm)) % 512; got != 504 {
				c.HarnessError("padding: segment %s ends at offset %d mod 512, want 504", nm, got)
			}
		}
	}
	return ""
}

// c04FaultCase injects the fault at the n-th mutating call of op. done = the operation makes fewer than n such calls.
func c04FaultCase(c *explore.Ctx, base *explore.Base, bname, cfg string, pre []explore.Op, o explore.Op, n int, memo recMemo, partial ...bool) (bool, *explore.Violation) {
	s := base.NewSess()
	part := len(partial) > 0 && partial[0]
	s.FS.FailPartial = part
	mk := func(class, msg string) *explore.Violation {
		w := append(append([]explore.Op(nil), pre...), o)
		return &explore.Violation{
			Key:    fmt.Sprintf("fault %s base=%s cfg=%s word=%s fault@%d partial=%v", class, bname, cfg, explore.WordString(w), n, part),
			What:   fmt.Sprintf("base %s/%s, [%s] with a transient I/O error injected at mutating file-system call #%d of %s (a data write hit by it writes %s): %s", bname, cfg, explore.WordString(w), n, o, map[bool]string{true: "the bytes before the last 512-byte-aligned file offset inside it, if any, and reports that count", false: "nothing"}[part], msg),
			Size:   len(w)*1000 + n,
			Replay: map[string]interface{}{"kind": "fault04", "base": bname, "cfg": cfg, "word": opsJSON(w), "fault_at": n, "partial": part, "class": class, "observed": msg},
		}
	}
	if err := s.OpenDB(); err != nil {
		return true, mk("open", "Open: "+err.Error())
	}
	for _, p := range pre {
		if err := s.Apply(p); err != nil {
			return true, mk("prefix", fmt.Sprintf("%s: %v", p, err))
		}
	}
	if part && (base.Cfg.MaxSeg == 0 || base.Cfg.MaxSeg > 1<<16) {
		if msg := padSegment(c, s); msg != "" {
			return true, mk("prefix", msg)
		}
	}
	m0 := s.Model.Clone()
	m1 := s.Model.Clone()
	switch o.Kind {
	case explore.Put:
		m1[string(s.Keys[o.Key])] = fmt.Sprintf("v%03d", (s.NVal+1)%1000)
	case explore.Delete:
		delete(m1, string(s.Keys[o.Key]))
	}
	before := s.FS.Mutations()
	s.FS.FailAt = before + n
	trace := os.Getenv("VERIF_TRACE") != ""
	if trace {
		s.FS.Record = true
		s.FS.Log = nil
		defer func() {
			for _, op := range s.FS.Log {
				fmt.Fprintln(os.Stderr, "  fs:", op.String())
			}
			fmt.Fprintln(os.Stderr, s.FS.Describe())
		}()
	}
	err := s.Apply(o)
	s.FS.FailAt = 0
	if s.FS.Mutations() < before+n {
		// the operation makes fewer than n mutating calls
		if s.DB != nil && o.Kind != explore.Close {
			_ = s.DB.Close()
		}
		return true, nil
	}
	c.Add("executions", 1)
	c.Add("fault_cases", 1)
	c.Add("transitions", int64(len(pre)+1))
	if s.Panicked != "" {
		return false, mk("panic", s.Panicked)
	}
	if err != nil {
		c.Outcome("faulted_op_result", o.Kind.String()+": error")
	} else {
		c.Outcome("faulted_op_result", o.Kind.String()+": nil (fault tolerated)")
	}
	judge := func(when string, img *simfs.FS) *explore.Violation {
		c.Add("images", 1)
		rec, fresh := memo.get(img, base, explore.RecoverOpts{})
		if fresh {
			c.Add("recoveries", 1)
			c.Distinct("image", explore.Hash64("fault", bname, cfg, img.Hash()))
		}
		if msg := explore.Admissible(rec, m0, m1, err == nil, s.KeyName); msg != "" {
			return mk("after-"+when, fmt.Sprintf("the operation returned %v; %s, the next process's Open: %s", err, when, msg))
		}
		return nil
	}
	// Which continuations are judged depends on the property the check runs for: a process that dies after the failed
	// call (A) or after further acknowledged writes (C) is C04's business (acknowledged writes survive the recovery); a
	// process that closes cleanly and exits (B) is a clean restart: C02's. C05/C13 probes and replays judge all three.
	modeA, modeC, modeB := c.Prop != "C02", c.Prop != "C02", c.Prop != "C04"
	// (A) the process dies right after the failed call returned
	if modeA && (o.Kind != explore.Close || err != nil) {
		if v := judge("the process dies", s.FS.Clone()); v != nil {
			return false, v
		}
	}
	// (C) the process carries on: two more writes (acknowledged unless they fail too), then it dies. Everything
	// acknowledged after the failed operation must survive the recovery as well.
	if modeC && o.Kind != explore.Close && s.DB != nil {
		s2m0, s2m1 := m0.Clone(), m1.Clone()
		img0 := s.FS.Clone() // state to come back to for continuation (B)
		_ = img0
		later := []explore.Op{{Kind: explore.Put, Key: "b"}, {Kind: explore.Put, Key: "a"}}
		ackedAll := true
		for _, lo := range later {
			val := fmt.Sprintf("v%03d", (s.NVal+1)%1000)
			if lerr := s.Apply(lo); lerr == nil {
				s2m0[string(s.Keys[lo.Key])] = val
				s2m1[string(s.Keys[lo.Key])] = val
			} else {
				ackedAll = false
			}
			if s.Panicked != "" {
				return false, mk("panic", s.Panicked)
			}
		}
		if ackedAll {
			c.Add("images", 1)
			rec := explore.RecoverImage(s.FS.Clone(), base.Cfg, base.Keys, base.Probe, base.Seed, explore.RecoverOpts{})
			if msg := explore.Admissible(rec, s2m0, s2m1, err == nil, s.KeyName); msg != "" {
				return false, mk("after-more-writes", fmt.Sprintf("the operation returned %v; the process then did Put(b), Put(a) (both acknowledged) and died; the next process's Open: %s", err, msg))
			}
		}
		// continuation (B) is judged on the state after these writes as well
		m0, m1 = s2m0, s2m1
		if !ackedAll {
			// a later write failed too: its effect is undetermined; skip the exact-contents oracle of (B)
			_ = s.ProtectedClose()
			return false, nil
		}
	}
	if !modeB {
		if s.DB != nil && o.Kind != explore.Close {
			_ = s.ProtectedClose()
		}
		return false, nil
	}
	// (B) the process closes the database (Close may fail as well) and exits
	if o.Kind != explore.Close {
		cerr := s.ProtectedClose()
		if s.Panicked != "" {
			return false, mk("panic", s.Panicked)
		}
		_ = cerr
	}
	if v := judge("the process calls Close and exits", s.FS.Clone()); v != nil {
		return false, v
	}
	return false, nil
}
