package main

import (
	"fmt"
	"github.com/akrylysov/pogreb/zzverif/refmodel"
	"sort"
	"strings"
	"time"

	"github.com/akrylysov/pogreb/zzverif/explore"
	"github.com/akrylysov/pogreb/zzverif/simfs"
)

// C05: compaction is logically invisible, with writers slipped into every lock-release window of
// Compact and with a crash at every file-system call of every such interleaved execution.

func c05Scenarios(thorough bool) []*explore.Scenario {
	var scs []*explore.Scenario
	bases := []string{"S2"}
	if thorough {
		bases = append(bases, "S3")
	}
	for _, b := range bases {
		L := []explore.Op{op(explore.Put, "e"), op(explore.Delete, "e"), op(explore.Put, "d"), op(explore.Put, "n"), op(explore.Delete, "a")}
		// single writer, 1 letter (crash layer on)
		for i, w := range L {
			scs = append(scs, &explore.Scenario{Name: fmt.Sprintf("CW1-%s-%d", b, i), Base: b, Cfg: "ROLL", Threads: []explore.ThreadProg{{op(explore.Compact, "")}, {w}}, Bound: -1, Record: true})
		}
		// reads during compaction
		for i, rd := range [][]explore.Op{{op(explore.Get, "e"), op(explore.Get, "a")}, {op(explore.Has, "e"), op(explore.Scan, "")}, {op(explore.Scan, ""), op(explore.Count, "")}, {op(explore.GetAppend, "a"), op(explore.Has, "d")}} {
			scs = append(scs, &explore.Scenario{Name: fmt.Sprintf("CR-%s-%d", b, i), Base: b, Cfg: "ROLL", Threads: []explore.ThreadProg{{op(explore.Compact, "")}, rd}, Bound: -1, QuietPop: true})
		}
		// two 1-letter writers
		for i, w1 := range L {
			for j, w2 := range L {
				if j < i || (!thorough && (i+j)%2 != 0) {
					continue
				}
				scs = append(scs, &explore.Scenario{Name: fmt.Sprintf("CWW-%s-%d%d", b, i, j), Base: b, Cfg: "ROLL", Threads: []explore.ThreadProg{{op(explore.Compact, "")}, {w1}, {w2}}, Bound: -1})
			}
		}
		// single writer, 2 letters (crash layer on)
		for i, w1 := range L {
			for j, w2 := range L {
				if !thorough && (i*2+j)%3 != 0 {
					continue
				}
				scs = append(scs, &explore.Scenario{Name: fmt.Sprintf("CW2-%s-%d%d", b, i, j), Base: b, Cfg: "ROLL", Threads: []explore.ThreadProg{{op(explore.Compact, "")}, {w1, w2}}, Bound: -1, Record: true})
			}
		}
	}
	// S4: the current segment is the (only) compaction candidate; writers land in it between pick and seal
	{
		L := []explore.Op{op(explore.Delete, "a"), op(explore.Put, "a"), op(explore.Delete, "e"), op(explore.Put, "n"), op(explore.Delete, "b")}
		for i, w := range L {
			scs = append(scs, &explore.Scenario{Name: fmt.Sprintf("CW1-S4-%d", i), Base: "S4", Cfg: "ROLL", Threads: []explore.ThreadProg{{op(explore.Compact, "")}, {w}}, Bound: -1, Record: true})
		}
		for i, w1 := range L {
			for j, w2 := range L {
				if i == j || (!thorough && (i+2*j)%3 != 0) {
					continue
				}
				scs = append(scs, &explore.Scenario{Name: fmt.Sprintf("CW2-S4-%d%d", i, j), Base: "S4", Cfg: "ROLL", Threads: []explore.ThreadProg{{op(explore.Compact, "")}, {w1, w2}}, Bound: -1, Record: true})
			}
		}
	}
	// SM: a small sealed segment holds the put of a key whose delete record lands in the compacted segment
	// (the interleavings in which the writer's Delete(a) comes first make the current segment eligible)
	for i, w := range []explore.ThreadProg{{op(explore.Delete, "a")}, {op(explore.Delete, "a"), op(explore.Put, "n")}, {op(explore.Delete, "a"), op(explore.Delete, "b")}, {op(explore.Delete, "a"), op(explore.Put, "a")}} {
		scs = append(scs, &explore.Scenario{Name: fmt.Sprintf("CW-SM-%d", i), Base: "SM", Cfg: "ROLLM", Threads: []explore.ThreadProg{{op(explore.Compact, "")}, w}, Bound: -1, Record: true})
	}
	// compaction of a chained index with colliding hashes: promotion must repoint the right slot
	for i, w := range []explore.Op{op(explore.Put, "o0"), op(explore.Put, "x"), op(explore.Delete, "o1")} {
		scs = append(scs, &explore.Scenario{Name: fmt.Sprintf("CC-%d", i), Base: "CC", Cfg: "ROLL", Threads: []explore.ThreadProg{{op(explore.Put, "c0"), op(explore.Compact, "")}, {w}}, Bound: 2, Record: false})
	}
	// FC: compaction x writer x I/O fault x crash. The first creation of a segment file after Open fails once - for the
	// writer (whose Put then returns an error) or for compaction (whose Compact then does): whatever that failure leaves
	// behind, acknowledged writes - a Delete in particular - must survive every crash of the interleaved execution.
	for i, w := range []explore.ThreadProg{{op(explore.Put, "n"), op(explore.Delete, "a")}, {op(explore.Put, "e"), op(explore.Delete, "b")}, {op(explore.Delete, "a"), op(explore.Put, "n")}} {
		scs = append(scs, &explore.Scenario{Name: fmt.Sprintf("FC-S4-%d", i), Base: "S4", Cfg: "ROLL", Threads: []explore.ThreadProg{{op(explore.Compact, "")}, w}, Bound: -1, Record: true, FailSegCreate: 1})
	}
	return scs
}

// c05FaultConcCheck: scenarios with an injected segment-creation failure. Calls may fail with the injected error (a failed
// write then may or may not have taken effect); everything else as in c05Check: history linearizable, contents at
// quiescence explained by it, and for every crash image of the interleaved execution the recovered contents are the
// writer's acknowledged writes, plus optionally the one in flight, under one of the readings of the failed writes.
func c05FaultConcCheck(c *explore.Ctx, base *explore.Base, sc *explore.Scenario, memo recMemo) func(r *explore.ConcRun) (string, string) {
	return func(r *explore.ConcRun) (string, string) {
		for _, e := range r.Events {
			if e.Err == "" || strings.Contains(e.Err, "injected") {
				continue
			}
			if e.Op.Kind == explore.Compact && compactRefused(r, e) {
				continue
			}
			return "op-error", fmt.Sprintf("%s in thread %d returned an error other than the injected one: %s", e.Op, e.Thread, e.Err)
		}
		if r.FinalMsg != "" {
			return "final", "at quiescence: " + r.FinalMsg
		}
		init := map[string]string{}
		for k, v := range base.Model {
			init[k] = v
		}
		ops := r.LinOps(base.Keys)
		ok, finals := refmodel.Linearize(init, ops)
		if !ok {
			return "not-linearizable", fmt.Sprintf("history is not linearizable: %v", ops)
		}
		match := false
		for _, f := range finals {
			match = match || explore.Model(f).Equal(r.Final)
		}
		if !match {
			return "final-state", fmt.Sprintf("contents at quiescence match no accepting linearisation of %v", ops)
		}
		var wr []explore.Event
		var failed []int
		for _, e := range r.Events {
			if e.Thread == 2 {
				wr = append(wr, e)
			}
		}
		sort.Slice(wr, func(i, j int) bool { return wr[i].Idx < wr[j].Idx })
		for i, e := range wr {
			if e.Err != "" {
				failed = append(failed, i)
			}
		}
		log := r.Sess.FS.Log
		var cls, res string
		simfs.CrashImages(base.Image, log, 0, len(log), func(im simfs.Image) bool {
			c.Add("images", 1)
			rec, fresh := memo.get(im.FS, base, explore.RecoverOpts{})
			if fresh {
				c.Add("recoveries", 1)
				c.Distinct("image", explore.Hash64(sc.Base, "fc", im.FS.Hash()))
			}
			first := ""
			for variant := 0; variant < 1<<uint(len(failed)); variant++ {
				took := map[int]bool{}
				for bi, wi := range failed {
					took[wi] = variant&(1<<uint(bi)) != 0
				}
				m0, m1 := base.Model.Clone(), base.Model.Clone()
				apply := func(m explore.Model, e explore.Event) {
					k := string(base.Keys[e.Op.Key])
					switch e.Op.Kind {
					case explore.Put:
						m[k] = e.Val
					case explore.Delete:
						delete(m, k)
					}
				}
				for i, e := range wr {
					if e.Err != "" && !took[i] {
						continue
					}
					if e.LogPos <= im.Pos {
						apply(m0, e)
						apply(m1, e)
					} else if e.LogAt < im.Pos {
						apply(m1, e)
						break
					} else {
						break
					}
				}
				msg := explore.Admissible(rec, m0, m1, false, r.Sess.KeyName)
				if msg == "" {
					return true
				}
				if first == "" {
					first = msg
				}
			}
			cls, res = "crash", fmt.Sprintf("crash after %d of %d file-system calls of the interleaved execution (%s; next call %s): %s", im.Pos, len(log), im.Desc, opAt(log, im.Pos), first)
			return false
		})
		return cls, res
	}
}

// c05Check: linearizability of the writers/readers (Compact is a no-op of the model), scan truthfulness,
// replay-divergence, and - when the op log was recorded - every crash image of the whole execution.
func c05Check(c *explore.Ctx, base *explore.Base, sc *explore.Scenario, memo recMemo, lvl2 map[string]string) func(r *explore.ConcRun) (string, string) {
	lin := linCheck(base)
	return func(r *explore.ConcRun) (string, string) {
		if cl, msg := lin(r); msg != "" {
			return cl, msg
		}
		// scans taken while compaction runs (no writers in those scenarios): exactly the base contents
		for _, e := range r.Events {
			if e.Op.Kind != explore.Scan {
				continue
			}
			got := explore.Model{}
			for _, p := range e.Pairs {
				if _, dup := got[p[0]]; dup {
					return "scan-dup", fmt.Sprintf("scan during compaction returned key %s twice", r.Sess.KeyName(p[0]))
				}
				got[p[0]] = p[1]
			}
			if !base.Model.Equal(got) {
				return "scan", "scan during compaction (no writers) differs from the contents: " + base.Model.Diff(got, r.Sess.KeyName)
			}
		}
		if !sc.Record {
			return "", ""
		}
		// crash layer: single writer thread (thread 2); Compact has no logical effect
		var wr []explore.Event
		for _, e := range r.Events {
			if e.Thread == 2 {
				wr = append(wr, e)
			}
		}
		sort.Slice(wr, func(i, j int) bool { return wr[i].Idx < wr[j].Idx })
		log := r.Sess.FS.Log
		apply := func(m explore.Model, e explore.Event) {
			k := string(base.Keys[e.Op.Key])
			switch e.Op.Kind {
			case explore.Put:
				m[k] = e.Val
			case explore.Delete:
				delete(m, k)
			}
		}
		var cls, res string
		simfs.CrashImages(base.Image, log, 0, len(log), func(im simfs.Image) bool {
			m0 := base.Model.Clone()
			m1 := base.Model.Clone()
			for _, e := range wr {
				if e.LogPos <= im.Pos {
					apply(m0, e)
					apply(m1, e)
				} else if e.LogAt < im.Pos {
					apply(m1, e) // in flight
					break
				} else {
					break
				}
			}
			c.Add("images", 1)
			h := im.FS.Hash()
			rec, fresh := memo.get(im.FS, base, explore.RecoverOpts{KeepAfter: true})
			if fresh {
				c.Add("recoveries", 1)
				c.Distinct("image", explore.Hash64(sc.Base, h))
			}
			if msg := explore.Admissible(rec, m0, m1, false, r.Sess.KeyName); msg != "" {
				cls, res = "crash", fmt.Sprintf("crash after %d of %d file-system calls of the interleaved execution (%s; next call %s): %s", im.Pos, len(log), im.Desc, opAt(log, im.Pos), msg)
				return false
			}
			// second level, once per distinct recovered image: {Compact, Put, Delete} then crash, recover again
			if rec.After != nil {
				// (memoised by image: the verdict of an image is the same whenever it is reached again)
				msg, seen := lvl2[h]
				if !seen {
					msg = c05Level2(c, base, rec, memo)
					lvl2[h] = msg
				}
				if msg != "" {
					cls, res = "crash-level2", fmt.Sprintf("crash after %d of %d file-system calls (%s), recovery, then %s", im.Pos, len(log), im.Desc, msg)
					return false
				}
			}
			return true
		})
		return cls, res
	}
}

// c05Level2: from a recovered (and cleanly closed) image: every word of length <= d over
// {Compact, Put(e), Delete(a), Put(d)} with every crash image inside its last operation.
func c05Level2(c *explore.Ctx, base *explore.Base, rec *explore.Recovered, memo recMemo) string {
	b2 := pseudoBase(base, rec.After, rec.Contents, 3)
	letters := []explore.Op{op(explore.Compact, ""), op(explore.Put, "e"), op(explore.Delete, "a"), op(explore.Put, "d")}
	depth := 1
	if c.Thorough() {
		depth = 2
	}
	var out string
	var words [][]explore.Op
	for _, l1 := range letters {
		words = append(words, []explore.Op{l1})
		if depth > 1 {
			for _, l2 := range letters {
				words = append(words, []explore.Op{l1, l2})
			}
		}
	}
	for _, w := range words {
		h := runHistory(b2, w)
		log := h.S.FS.Log
		if h.Errs[0] != nil {
			return "Open failed: " + h.Errs[0].Error()
		}
		opi := len(w)
		if h.Errs[opi] != nil {
			if h.S.DB != nil {
				_ = h.S.DB.Close()
			}
			return fmt.Sprintf("%s returned error: %v", w[opi-1], h.Errs[opi])
		}
		from, to := h.Bounds[opi], h.Bounds[opi+1]
		m0, m1 := h.Models[opi], h.Models[opi+1]
		simfs.CrashImages(b2.Image, log, from, to, func(im simfs.Image) bool {
			c.Add("images", 1)
			c.Add("level2_images", 1)
			r2, fresh := memo.get(im.FS, b2, explore.RecoverOpts{})
			if fresh {
				c.Add("recoveries", 1)
			}
			if msg := explore.Admissible(r2, m0, m1, im.Pos == to, h.S.KeyName); msg != "" {
				out = fmt.Sprintf("[%s] with a crash after %d of its file-system calls (%s): %s", explore.WordString(w), im.Pos-from, im.Desc, msg)
				return false
			}
			return true
		})
		if h.S.DB != nil {
			_ = h.S.DB.Close()
		}
		if out != "" {
			return out
		}
	}
	return ""
}

// c05Sequential: compaction of every state reached by short words from the chained / split bases
// (holes in head buckets, 3-bucket chains, colliding hashes), no concurrency: contents, structure,
// independent replay and the contents after a crash right after Compact must all equal the model.
func c05Sequential(c *explore.Ctx) {
	depth := 2
	bases := []string{"HO", "CH", "CC", "SP", "LCS", "FL", "RU"}
	if c.Thorough() {
		depth = 3
		bases = append(bases, "LCM", "ML")
	}
	for _, bn := range bases {
		if c.Expired() || c.NViolations() > 0 {
			return
		}
		base, err := explore.GetBase(bn, cfgByName("ROLL"), 0)
		if err != nil {
			c.HarnessError("%v", err)
		}
		explore.PinSeed(0)
		letters := explore.Letters(base.Alpha)
		enumWords(c, letters, depth, func(word []explore.Op, checkFrom int) bool {
			if c.Expired() {
				return false
			}
			s := base.NewSess()
			mk := func(w []explore.Op, msg string) bool {
				return !c.Violation(explore.Violation{
					Key:    fmt.Sprintf("seq base=%s cfg=ROLL word=%s", bn, explore.WordString(w)),
					What:   fmt.Sprintf("base %s/ROLL, [%s] (no concurrency): %s", bn, explore.WordString(w), msg),
					Size:   len(w),
					Replay: map[string]interface{}{"kind": "word", "check": "C05", "base": bn, "cfg": "ROLL", "seed": 0, "word": opsJSON(w), "observed": msg},
				})
			}
			if err := s.OpenDB(); err != nil {
				return mk(nil, "Open: "+err.Error())
			}
			defer func() {
				if s.DB != nil {
					_ = s.DB.Close()
				}
			}()
			c.Add("executions", 1)
			c.Add("sequential_words", 1)
			w := append([]explore.Op(nil), word...)
			for i := 0; i <= len(word); i++ {
				// after every prefix that is new: Compact, then the oracles
				if i < len(word) {
					_ = s.Apply(word[i])
					c.Add("transitions", 1)
					if i+1 < checkFrom || i+1 < len(word) {
						continue
					}
				} else {
					break
				}
				if err := s.Apply(explore.Op{Kind: explore.Compact}); err != nil {
					return mk(append(w, explore.Op{Kind: explore.Compact}), "Compact returned error: "+err.Error())
				}
				w2 := append(append([]explore.Op(nil), w...), explore.Op{Kind: explore.Compact})
				c.Distinct("outcome", explore.Hash64("seq", bn, s.FS.Hash()))
				if msg := s.Check(); msg != "" {
					return mk(w2, msg)
				}
				if msg := replayEqualsModel(s); msg != "" {
					return mk(w2, msg)
				}
				rec := explore.RecoverImage(s.FS.Clone(), base.Cfg, base.Keys, base.Probe, base.Seed, explore.RecoverOpts{})
				if msg := explore.Admissible(rec, s.Model, s.Model, true, s.KeyName); msg != "" {
					return mk(w2, "process crash right after Compact returned, then recovery: "+msg)
				}
			}
			return true
		})
	}
}

// c05Faults: a transient I/O error at each mutating file-system call of Compact (C04's fault layer, restricted to
// Compact): whether Compact fails or tolerates the fault, the contents seen by the next process - after the process
// dies, or closes and exits - are exactly the acknowledged ones.
func c05Faults(c *explore.Ctx) {
	for _, bc := range [][2]string{{"S2", "ROLL"}, {"S3", "ROLL"}, {"SM", "ROLLM"}, {"S4", "ROLL"}} {
		base, err := explore.GetBase(bc[0], cfgByName(bc[1]), 0)
		if err != nil {
			c.HarnessError("%v", err)
		}
		explore.PinSeed(0)
		memo := recMemo{}
		for _, pre := range [][]explore.Op{{}, {{Kind: explore.Delete, Key: "a"}}, {{Kind: explore.Put, Key: "a"}}, {{Kind: explore.Delete, Key: "b"}}} {
			if !c.Mine() {
				continue
			}
			for n := 1; n < 300; n++ {
				if c.Expired() || c.NViolations() > 0 {
					return
				}
				done, v := c04FaultCase(c, base, bc[0], bc[1], pre, explore.Op{Kind: explore.Compact}, n, memo)
				if v != nil {
					c.Violation(*v)
					return
				}
				if done {
					break
				}
			}
		}
	}
}

func runC05(c *explore.Ctx) {
	c05Sequential(c)
	if c.Expired() || c.NViolations() > 0 {
		return
	}
	c05Faults(c)
	if c.Expired() || c.NViolations() > 0 {
		return
	}
	memos := map[string]recMemo{}
	lvl2 := map[string]map[string]string{}
	runScenarioSet(c, c05Scenarios(c.Thorough()), func(base *explore.Base, sc *explore.Scenario) func(r *explore.ConcRun) (string, string) {
		if memos[sc.Base] == nil {
			memos[sc.Base] = recMemo{}
			lvl2[sc.Base] = map[string]string{}
		}
		if sc.FailSegCreate > 0 {
			return c05FaultConcCheck(c, base, sc, memos[sc.Base])
		}
		return c05Check(c, base, sc, memos[sc.Base], lvl2[sc.Base])
	})
}

func init() {
	explore.Register(&explore.CheckInfo{
		Prop:  "C05",
		Level: "model_checking",
		Rule: "thread 1 runs Compact on a 3-segment base (delete record whose put is older, live records to promote), thread 2 (and 3) run every 1- and 2-letter program over {Put(live),Delete(live),Put(deleted),Put(new),Delete(live2)} or reads/scans: ALL interleavings at lock granularity (compaction releases the lock once per record) under the vsync scheduler; " +
			"oracles per execution: WGL linearizability with Compact as a no-op, quiescent contents, independent replay == contents, scans == contents; for single-writer scenarios additionally EVERY process-crash image (every FS-call boundary + 512-byte tears) of the whole interleaved execution is recovered and compared with acked +/- in-flight writer op, " +
			"and every distinct recovered image is continued with {Compact,Put,Delete} + crash + recovery; states = distinct observed outcomes + distinct crash images",
		Assumptions:   []string{"scheduling points at sync operations (see C07)", "process-crash model of C03", "sequential Compact (no concurrency) is additionally a letter of the C01/C02/C03/C04/C06 alphabets"},
		QuickBudget:   100 * time.Second,
		ThorBudget:    25 * time.Minute,
		Run:           runC05,
		EvalKey:       "executions",
		DistinctClass: "outcome",
		StatesKey:     "distinct:outcome",
		TransKey:      "transitions",
		TracesKey:     "executions",
	})
}
