package main

import (
	"fmt"
	"github.com/akrylysov/pogreb"
	"sort"
	"strings"
	"time"

	"github.com/akrylysov/pogreb/zzverif/explore"
	"github.com/akrylysov/pogreb/zzverif/refmodel"
	"github.com/akrylysov/pogreb/zzverif/simfs"
)

// C06 / C09: power-loss images. Directory operations are durable and ordered; file data is
// volatile until Sync on that file; each file keeps its last synced content plus an in-order
// prefix (last write optionally cut at a 512-aligned offset) of the writes/truncations since.

// plHistory is an executed history with Reopen split into Close and Open.
type plHistory struct {
	S       *explore.Sess
	Ops     []explore.Op    // expanded: Reopen -> Close, Open; Ops[0] is the initial Open
	Bounds  []int           // Bounds[i] = log length before Ops[i]; len(Ops)+1 entries
	Models  []explore.Model // Models[i] = model before Ops[i]; Models[len(Ops)] = final
	Errs    []error
	Durable []bool // Ops[i] is a durability point (when it returned nil)
	WordIdx []int  // index of the word letter an expanded op belongs to (0 = initial Open)
}

func runPLHistory(base *explore.Base, word []explore.Op) *plHistory {
	h := &plHistory{}
	s := base.NewSess()
	s.FS.Record = true
	h.S = s
	do := func(o explore.Op, wi int, f func() error) bool {
		h.Ops = append(h.Ops, o)
		h.WordIdx = append(h.WordIdx, wi)
		h.Bounds = append(h.Bounds, len(s.FS.Log))
		h.Models = append(h.Models, s.Model.Clone())
		err := f()
		h.Errs = append(h.Errs, err)
		dur := false
		if err == nil {
			switch o.Kind {
			case explore.Sync, explore.Close:
				dur = true
			case explore.Put, explore.Delete:
				dur = s.Cfg.SyncWrites
			}
		}
		h.Durable = append(h.Durable, dur)
		return err == nil
	}
	ok := do(explore.Op{Kind: explore.Open}, 0, s.OpenDB)
	for i, o := range word {
		if !ok {
			break
		}
		o := o
		if o.Kind == explore.Reopen {
			ok = do(explore.Op{Kind: explore.Close}, i+1, func() error {
				err := s.DB.Close()
				if err == nil {
					s.DB = nil
				}
				return err
			})
			if ok {
				ok = do(explore.Op{Kind: explore.Open}, i+1, s.OpenDB)
			}
			continue
		}
		do(o, i+1, func() error { return s.Apply(o) })
	}
	h.Bounds = append(h.Bounds, len(s.FS.Log))
	h.Models = append(h.Models, s.Model.Clone())
	return h
}

// allowed computes, for a power failure at log position p, the admissible values per key:
// the value at the last completed durability point plus every later written value / deletion.
type allowedSet struct {
	base   explore.Model
	later  map[string]map[string]bool // key -> set of values ("\x00absent" for deletions)
	durOp  int
	strict bool // no operation was issued after the durability point: contents must equal base exactly
}

const absentMark = "\x00absent"

func (h *plHistory) allowedAt(p int) allowedSet {
	t := -1
	for i := range h.Ops {
		if h.Durable[i] && h.Bounds[i+1] <= p {
			t = i
		}
	}
	a := allowedSet{later: map[string]map[string]bool{}, durOp: t, strict: true}
	if t < 0 {
		a.base = h.Models[0]
	} else {
		a.base = h.Models[t+1]
	}
	for i := t + 1; i < len(h.Ops); i++ {
		if h.Bounds[i] > p {
			break
		}
		o := h.Ops[i]
		if o.Kind != explore.Put && o.Kind != explore.Delete {
			continue
		}
		a.strict = false
		k := string(h.S.Keys[o.Key])
		if a.later[k] == nil {
			a.later[k] = map[string]bool{}
		}
		if o.Kind == explore.Delete {
			a.later[k][absentMark] = true
		} else if v, ok := h.Models[i+1][k]; ok {
			a.later[k][v] = true
		}
	}
	return a
}

func (a allowedSet) check(got explore.Model, names func(string) string) string {
	keys := map[string]bool{}
	for k := range a.base {
		keys[k] = true
	}
	for k := range a.later {
		keys[k] = true
	}
	for k := range got {
		keys[k] = true
	}
	for k := range keys {
		gv, present := got[k]
		bv, inBase := a.base[k]
		if present == inBase && (!present || gv == bv) {
			continue
		}
		if present && a.later[k][gv] {
			continue
		}
		if !present && a.later[k][absentMark] {
			continue
		}
		want := "absent"
		if inBase {
			want = fmt.Sprintf("%q", bv)
		}
		g := "absent"
		if present {
			g = fmt.Sprintf("%q", gv)
		}
		var lv []string
		for v := range a.later[k] {
			if v == absentMark {
				v = "absent"
			}
			lv = append(lv, v)
		}
		return fmt.Sprintf("key %s is %s; at the last completed durability point it was %s, values written since: %v", names(k), g, want, lv)
	}
	return ""
}

type plSpace struct {
	Base, Cfg string
	Depth     int
}

func c06Letters() []explore.Op {
	return []explore.Op{
		{Kind: explore.Put, Key: "a"}, {Kind: explore.Put, Key: "b"}, {Kind: explore.Delete, Key: "a"},
		{Kind: explore.Sync}, {Kind: explore.Compact}, {Kind: explore.Reopen},
	}
}

func cfgPL(name string) explore.Config {
	sw := false
	if len(name) > 3 && name[len(name)-3:] == "+SW" {
		sw = true
		name = name[:len(name)-3]
	}
	c := cfgByName(name)
	if sw {
		c.SyncWrites = true
		c.Name += "+SW"
	}
	return c
}

func runC06(c *explore.Ctx) {
	var spaces []plSpace
	if c.Thorough() {
		spaces = []plSpace{{"E", "ROLL", 7}, {"E", "ROLL+SW", 7}, {"E", "ROLL1", 6}, {"E", "ROLL1+SW", 6}, {"E", "BIGC", 6}, {"E", "BIGC+SW", 6}, {"S2", "ROLL", 6}, {"S2", "ROLL+SW", 6}, {"T", "BIGC", 5},
			{"RU", "ROLL", 7}, {"T!hdr3", "BIGC", 5}, {"T!torn", "BIGC", 5}, {"S2!torn", "ROLL", 5}, {"S2!unclean", "ROLL", 5}}
	} else {
		spaces = []plSpace{{"E", "ROLL", 3}, {"E", "ROLL+SW", 3}, {"E", "ROLL1", 3}, {"E", "ROLL1+SW", 3}, {"E", "BIGC", 3}, {"S2", "ROLL", 3}, {"S2", "ROLL+SW", 2},
			// sessions that follow an earlier failure (torn size header / torn record left in the newest segment), and a log
			// whose file-name order is not its sequence order (ids reused after a compaction) restarted and rolled over
			{"RU", "ROLL", 4}, {"T!hdr3", "BIGC", 2}, {"T!torn", "BIGC", 2}, {"S2!unclean", "ROLL", 2}}
	}
	runPowerSpaces(c, spaces, false)
	if c.Expired() || c.NViolations() > 0 {
		return
	}
	runC06Conc(c)
}

func runC09(c *explore.Ctx) {
	var spaces []plSpace
	if c.Thorough() {
		spaces = []plSpace{{"E", "ROLL", 8}, {"E", "ROLL+SW", 8}, {"E", "BIGC", 8}, {"E", "BIGC+SW", 7}, {"S2", "ROLL", 8}, {"S4", "ROLL", 7}, {"S3", "ROLL", 6}, {"CH", "BIGC", 6}, {"SP", "BIGC", 6}, {"S2!unclean", "ROLL", 6}, {"CH!unclean", "BIGC", 5}, {"T!unclean", "BIGC", 5}, {"T!torn", "BIGC", 6}, {"S2!torn", "ROLL", 6}}
	} else {
		spaces = []plSpace{{"E", "ROLL", 4}, {"E", "ROLL+SW", 3}, {"E", "BIGC", 4}, {"E", "BIGC+SW", 3}, {"S2", "ROLL", 4}, {"S4", "ROLL", 3}, {"SP", "BIGC", 2}, {"CH", "BIGC", 2}, {"S2!unclean", "ROLL", 2}, {"CH!unclean", "BIGC", 1}, {"T!torn", "BIGC", 2}, {"S2!torn", "ROLL", 2}}
	}
	runPowerSpaces(c, spaces, true)
	if c.Expired() || c.NViolations() > 0 {
		return
	}
	c09FaultyClose(c)
	if c.Expired() || c.NViolations() > 0 {
		return
	}
	c09AfterFailedCompact(c)
	if c.Expired() || c.NViolations() > 0 {
		return
	}
	c09BackupCopy(c)
}

// uncleanVariant returns the base with its (durable) image left unclean: the history's first Open is a recovery.
// "<base>!torn": additionally the newest segment ends in a whole record with a bad checksum (exactly the size of
// one harness record), which the recovery truncates - the next Put brings the file back to its previous length.
func uncleanVariant(base *explore.Base, name string) *explore.Base {
	b2 := *base
	b2.Image = base.Image.Clone()
	b2.Image.SetBytes(explore.DBPath+"/lock", nil)
	if strings.HasSuffix(name, "!hdr3") {
		// the earlier power failure tore an append inside the 6-byte size header of a record: 3 bytes of it survive
		d := refmodel.ReplayDir(explore.SegmentFiles(b2.Image))
		if len(d.Segments) > 0 {
			seg := explore.DBPath + "/" + d.Segments[len(d.Segments)-1].Name
			b2.Image.SetBytes(seg, append(append([]byte(nil), b2.Image.Bytes(seg)...), 0x07, 0x00, 0x09))
		}
	}
	if strings.HasSuffix(name, "!torn") {
		d := refmodel.ReplayDir(explore.SegmentFiles(b2.Image))
		if len(d.Segments) > 0 {
			seg := explore.DBPath + "/" + d.Segments[len(d.Segments)-1].Name
			rec := refmodel.EncodeRecord(explore.ForgeKey(0, 'Z', 0, 0x7a7a7a7a), []byte("tail"), false)
			rec[len(rec)-1] ^= 0x55
			b2.Image.SetBytes(seg, append(append([]byte(nil), b2.Image.Bytes(seg)...), rec...))
		}
	}
	b2.Name = name
	return &b2
}

// baseVariant resolves "<base>", "<base>!unclean", "<base>!torn", "<base>!hdr3".
func baseVariant(name string, cfg explore.Config) (*explore.Base, error) {
	bname := strings.TrimSuffix(strings.TrimSuffix(strings.TrimSuffix(name, "!unclean"), "!torn"), "!hdr3")
	base, err := explore.GetBase(bname, cfg, 0)
	if err != nil {
		return nil, err
	}
	if bname != name {
		base = uncleanVariant(base, name)
	}
	return base, nil
}

// runPowerSpaces: afterCloseOnly restricts the failure instants to those from the return of a Close
// to the completion of the following Open (C09); otherwise all instants (C06).
func runPowerSpaces(c *explore.Ctx, spaces []plSpace, afterCloseOnly bool) {
	for _, sp := range spaces {
		if c.Expired() || c.NViolations() > 0 {
			return
		}
		bname := strings.TrimSuffix(strings.TrimSuffix(strings.TrimSuffix(sp.Base, "!unclean"), "!torn"), "!hdr3")
		base, err := explore.GetBase(bname, cfgPL(sp.Cfg), 0)
		if err != nil {
			c.HarnessError("%v", err)
		}
		if bname != sp.Base {
			base = uncleanVariant(base, sp.Base)
		}
		explore.PinSeed(0)
		memo := recMemo{}
		sp := sp
		letters := c06Letters()
		if bname != "E" && bname != "S2" && bname != "T" && bname != "S3" && bname != "S4" {
			letters = []explore.Op{{Kind: explore.Put, Key: base.Alpha[0]}, {Kind: explore.Put, Key: base.Alpha[len(base.Alpha)-3]}, {Kind: explore.Delete, Key: base.Alpha[0]}}
			if base.Keys["o0"] != nil {
				// a key whose slot lives in an overflow bucket: updating it rewrites overflow.pix in place
				letters = append(letters, explore.Op{Kind: explore.Put, Key: "o0"}, explore.Op{Kind: explore.Delete, Key: "o0"})
			}
			letters = append(letters, explore.Op{Kind: explore.Sync}, explore.Op{Kind: explore.Compact}, explore.Op{Kind: explore.Reopen})
		}
		if c.Mine() {
			if v := powerWord(c, base, sp, nil, 0, memo, afterCloseOnly); v != nil {
				c.Violation(*v)
			}
		}
		enumWords(c, letters, sp.Depth, func(word []explore.Op, checkFrom int) bool {
			if c.Expired() {
				return false
			}
			if afterCloseOnly {
				has := false
				for _, o := range word[checkFrom-1:] {
					has = has || o.Kind == explore.Reopen
				}
				if !has {
					return true
				}
			}
			if v := powerWord(c, base, sp, word, checkFrom, memo, afterCloseOnly); v != nil {
				return !c.Violation(*v)
			}
			return true
		})
	}
}

func powerWord(c *explore.Ctx, base *explore.Base, sp plSpace, word []explore.Op, checkFrom int, memo recMemo, afterCloseOnly bool) *explore.Violation {
	h := runPLHistory(base, word)
	defer func() {
		if h.S.DB != nil {
			_ = h.S.DB.Close()
		}
	}()
	c.Add("executions", 1)
	log := h.S.FS.Log
	prop := "power06"
	if afterCloseOnly {
		prop = "power09"
	}
	// first expanded op that belongs to a word letter >= checkFrom
	first := len(h.Ops)
	for i, wi := range h.WordIdx {
		if wi >= checkFrom {
			first = i
			break
		}
	}
	if first >= len(h.Ops) {
		return nil
	}
	for i := first; i < len(h.Ops); i++ {
		if h.Errs[i] != nil {
			c.Add("op_errors", 1)
			c.Outcome("op_error", fmt.Sprintf("%s: %v", h.Ops[i].Kind, h.Errs[i]))
		}
	}
	from, to := h.Bounds[first], h.Bounds[len(h.Ops)]
	if first > 0 {
		from++ // position Bounds[first] itself belongs to the previous operation's range
	}
	opts := simfs.PowerLossOpts{ReduceUnread: true, Dir: explore.DBPath, LockName: "lock", SegmentExt: refmodel.SegmentExt, MaxPerPos: 4096}
	var viol *explore.Violation
	st := simfs.PowerLossImages(base.Image, log, from, to, opts, func(im simfs.Image) bool {
		if afterCloseOnly {
			// only instants from the return of a Close to the completion of the following Open
			in := false
			for i, o := range h.Ops {
				if o.Kind == explore.Close && h.Errs[i] == nil && im.Pos >= h.Bounds[i+1] {
					end := h.Bounds[i+1]
					if i+1 < len(h.Ops) {
						end = h.Bounds[i+2]
					}
					if im.Pos <= end {
						in = true
					}
				}
			}
			if !in {
				return true
			}
		}
		c.Add("images", 1)
		r, fresh := memo.get(im.FS, base, explore.RecoverOpts{})
		if fresh {
			c.Add("recoveries", 1)
			c.Distinct("image", explore.Hash64(sp.Base, sp.Cfg, im.FS.Hash()))
		}
		a := h.allowedAt(im.Pos)
		msg := ""
		switch {
		case r.OpenErr != "":
			msg = "Open after the power failure failed: " + r.OpenErr
		case r.Internal != "":
			msg = "database reopened after the power failure is inconsistent: " + r.Internal
		default:
			msg = a.check(r.Contents, h.S.KeyName)
		}
		if msg != "" {
			// which op was running
			cur := 0
			for i := range h.Ops {
				if h.Bounds[i] < im.Pos {
					cur = i
				}
			}
			durDesc := "none (base image)"
			if a.durOp >= 0 {
				durDesc = fmt.Sprintf("%s (op %d)", h.Ops[a.durOp], a.durOp)
			}
			word := word[:h.WordIdx[cur]]
			viol = &explore.Violation{
				Key: fmt.Sprintf("base=%s cfg=%s word=%s pos=%d lost=%s", sp.Base, sp.Cfg, explore.WordString(word), im.Pos, im.Desc),
				What: fmt.Sprintf("history [%s] from base %s/%s, power failure after %d file-system calls (during/after %s; last completed durability point: %s), surviving-prefix choice {%s}: %s",
					explore.WordString(word), sp.Base, sp.Cfg, im.Pos, h.Ops[cur], durDesc, im.Desc, msg),
				Size:   len(word)*100000 + im.Pos*10 + len(im.Desc)/20,
				Replay: map[string]interface{}{"kind": prop, "base": sp.Base, "cfg": sp.Cfg, "seed": 0, "word": opsJSON(word), "pos": im.Pos, "variant": im.Desc, "observed": msg},
			}
			return false
		}
		return true
	})
	c.Add("positions", int64(st.Positions))
	if st.Capped > 0 {
		c.Cap(fmt.Sprintf("more than %d power-loss images at one position: deviation-bounded enumeration used there", opts.MaxPerPos))
		c.Add("positions_capped", int64(st.Capped))
	}
	if viol != nil {
		return viol
	}
	if len(word) > 0 {
		c.Sample(map[string]interface{}{"base": sp.Base, "cfg": sp.Cfg, "word": opsJSON(word), "fs_calls": len(log), "images_for_this_word": st.Images})
	}
	return nil
}

func replayPower(rep map[string]interface{}) (string, error) {
	word, err := parseWord(rep["word"])
	if err != nil {
		return "", err
	}
	sp := plSpace{Base: fmt.Sprint(rep["base"]), Cfg: fmt.Sprint(rep["cfg"])}
	base, err := explore.GetBase(strings.TrimSuffix(strings.TrimSuffix(strings.TrimSuffix(sp.Base, "!unclean"), "!torn"), "!hdr3"), cfgPL(sp.Cfg), 0)
	if err != nil {
		return "", err
	}
	if strings.Contains(sp.Base, "!") {
		base = uncleanVariant(base, sp.Base)
	}
	explore.PinSeed(0)
	h := runPLHistory(base, word)
	pos := int(numField(rep, "pos"))
	variant := fmt.Sprint(rep["variant"])
	var res string
	found := false
	opts := simfs.PowerLossOpts{ReduceUnread: true, Dir: explore.DBPath, LockName: "lock", SegmentExt: refmodel.SegmentExt, MaxPerPos: 1 << 20}
	simfs.PowerLossImages(base.Image, h.S.FS.Log, pos, pos, opts, func(im simfs.Image) bool {
		if im.Desc != variant {
			return true
		}
		found = true
		fmt.Printf("  image: %s\n", im.FS.Describe())
		r := explore.RecoverImage(im.FS, base.Cfg, base.Keys, base.Probe, 0, explore.RecoverOpts{})
		switch {
		case r.OpenErr != "":
			res = "Open failed: " + r.OpenErr
		case r.Internal != "":
			res = "inconsistent: " + r.Internal
		default:
			res = h.allowedAt(pos).check(r.Contents, h.S.KeyName)
		}
		return false
	})
	if !found {
		return "", fmt.Errorf("image variant %q not produced at position %d", variant, pos)
	}
	return res, nil
}

func init() {
	explore.Register(&explore.CheckInfo{
		Prop:  "C06",
		Level: "fault_enumeration",
		Rule: "for every word of length <= d over {Put(a),Put(b),Delete(a),Sync,Compact,Reopen} from bases E/S2 (x ROLL, ROLL1, BIGC; explicit-Sync and sync-after-every-write modes): every power-failure instant (file-system-call boundary) x every admissible combination of per-file surviving prefixes " +
			"(last write optionally cut at each 512-aligned offset; files that recovery never reads jointly none/all when the lock file is present) is built as a disk image, opened with the real Open and every key compared with {value at the last completed durability point} + {values written/deleted since}. Concurrent layer: a writer thread that syncs (or sync-after-every-write mode) interleaved with Compact under the vsync scheduler (ALL interleavings at lock granularity, bases S2/S4): the same power-loss enumeration over the op log of every interleaved execution; distinct_nontrivial = distinct images recovered",
		Assumptions:   []string{"power-loss model of the property (durable ordered directory operations, per-file in-order prefixes, 512-byte sectors)", "the base image is durable", "cap of 4096 images per failure instant (reported in caps_hit when it binds)"},
		QuickBudget:   100 * time.Second,
		ThorBudget:    25 * time.Minute,
		Run:           runC06,
		EvalKey:       "images",
		DistinctClass: "image",
	})
	explore.Register(&explore.CheckInfo{
		Prop:  "C09",
		Level: "fault_enumeration",
		Rule: "words as in C06 that contain a Reopen (= Close returning nil, then Open): every power-failure instant from the return of Close to the completion of the following Open x the full product of per-file surviving prefixes over all files (the lock file is absent, so index, metadata and segment files are all trusted) " +
			"is opened with the real Open and must yield exactly the closed contents; distinct_nontrivial = distinct images recovered",
		Assumptions:   []string{"power-loss model of the property", "cap of 4096 images per failure instant, deviation-bounded order (reported in caps_hit when it binds)"},
		QuickBudget:   100 * time.Second,
		ThorBudget:    25 * time.Minute,
		Run:           runC09,
		EvalKey:       "images",
		DistinctClass: "image",
	})
	replayers["power06"] = replayPower
	replayers["power09"] = replayPower
	_ = time.Second
}

// ---------------------------------------------------------------------------------------------
// C06, concurrent layer: a writer that syncs (or sync-after-every-write mode) interleaved with Compact at
// lock granularity; for EVERY interleaving the power-loss images of the whole interleaved op log are
// enumerated and judged with the per-key durability oracle.

func c06ConcScenarios(thorough bool) []*explore.Scenario {
	var scs []*explore.Scenario
	progs := []explore.ThreadProg{
		{op(explore.Put, "e"), op(explore.Sync, "")},
		{op(explore.Put, "a"), op(explore.Sync, ""), op(explore.Delete, "b")},
		{op(explore.Delete, "a"), op(explore.Sync, ""), op(explore.Put, "n")},
		{op(explore.Put, "n"), op(explore.Put, "e"), op(explore.Sync, "")},
	}
	for _, bc := range [][2]string{{"S2", "ROLL"}, {"S4", "ROLL"}, {"S2", "ROLL+SW"}} {
		for i, p := range progs {
			if !thorough && bc[0] != "S2" && i%2 == 1 {
				continue
			}
			if bc[1] == "ROLL+SW" {
				// every write is a durability point: drop the explicit Sync calls
				var q explore.ThreadProg
				for _, o := range p {
					if o.Kind != explore.Sync {
						q = append(q, o)
					}
				}
				p = q
			}
			scs = append(scs, &explore.Scenario{Name: fmt.Sprintf("PW-%s-%s-%d", bc[0], bc[1], i), Base: bc[0], Cfg: bc[1], Threads: []explore.ThreadProg{{op(explore.Compact, "")}, p}, Bound: -1, Record: true})
		}
	}
	// W2: two writers that each sync their own writes (disjoint keys; ROLL+SW: every write is its own durability point).
	// A Sync that returned makes durable every write that had returned before that Sync was called - whoever wrote it.
	w2 := [][]explore.ThreadProg{
		{{op(explore.Put, "a"), op(explore.Sync, "")}, {op(explore.Put, "e"), op(explore.Sync, "")}},
		{{op(explore.Delete, "a"), op(explore.Sync, "")}, {op(explore.Put, "e"), op(explore.Put, "e"), op(explore.Sync, "")}},
		{{op(explore.Put, "a"), op(explore.Sync, ""), op(explore.Put, "a")}, {op(explore.Put, "e"), op(explore.Sync, "")}},
	}
	for _, bc := range [][2]string{{"S2", "ROLL"}, {"S2", "ROLL+SW"}} {
		for i, th := range w2 {
			if bc[1] == "ROLL+SW" {
				var ts []explore.ThreadProg
				for _, p := range th {
					var q explore.ThreadProg
					for _, o := range p {
						if o.Kind != explore.Sync {
							q = append(q, o)
						}
					}
					ts = append(ts, q)
				}
				th = ts
			}
			scs = append(scs, &explore.Scenario{Name: fmt.Sprintf("W2-%s-%s-%d", bc[0], bc[1], i), Base: bc[0], Cfg: bc[1], Threads: th, Bound: -1, Record: true})
		}
	}
	return scs
}

// c06TwoWriterCheck: the per-key oracle for writers on disjoint keys. At a power failure after log position p, a
// write is durable iff it returned without error and (sync-after-write mode) its own return lies at or before p, or a
// Sync of any thread that returned at or before p was called after the write had returned.
func c06TwoWriterCheck(c *explore.Ctx, base *explore.Base, sc *explore.Scenario, memo recMemo) func(r *explore.ConcRun) (string, string) {
	lin := linCheck(base)
	return func(r *explore.ConcRun) (string, string) {
		if cl, msg := lin(r); msg != "" {
			return cl, msg
		}
		evs := append([]explore.Event(nil), r.Events...)
		sort.Slice(evs, func(i, j int) bool {
			if evs[i].Thread != evs[j].Thread {
				return evs[i].Thread < evs[j].Thread
			}
			return evs[i].Idx < evs[j].Idx
		})
		log := r.Sess.FS.Log
		opts := simfs.PowerLossOpts{ReduceUnread: true, Dir: explore.DBPath, LockName: "lock", SegmentExt: refmodel.SegmentExt, MaxPerPos: 512}
		var cls, res string
		st := simfs.PowerLossImages(base.Image, log, 0, len(log), opts, func(im simfs.Image) bool {
			a := allowedSet{later: map[string]map[string]bool{}, durOp: -1, base: base.Model.Clone()}
			durable := func(w explore.Event) bool {
				if w.Err != "" {
					return false
				}
				if base.Cfg.SyncWrites && w.LogPos <= im.Pos {
					return true
				}
				for _, s := range evs {
					if s.Op.Kind == explore.Sync && s.Err == "" && s.LogPos <= im.Pos && w.Ret <= s.Call {
						return true
					}
				}
				return false
			}
			for _, w := range evs { // per thread in program order; keys are disjoint between threads
				if w.Op.Kind != explore.Put && w.Op.Kind != explore.Delete {
					continue
				}
				if w.LogAt > im.Pos {
					continue // not yet called
				}
				k := string(base.Keys[w.Op.Key])
				if durable(w) {
					if w.Op.Kind == explore.Delete {
						delete(a.base, k)
					} else {
						a.base[k] = w.Val
					}
					delete(a.later, k)
					continue
				}
				if a.later[k] == nil {
					a.later[k] = map[string]bool{}
				}
				if w.Op.Kind == explore.Delete {
					a.later[k][absentMark] = true
				} else {
					a.later[k][w.Val] = true
				}
			}
			c.Add("images", 1)
			rec, fresh := memo.get(im.FS, base, explore.RecoverOpts{})
			if fresh {
				c.Add("recoveries", 1)
				c.Distinct("image", explore.Hash64(sc.Base, sc.Cfg, im.FS.Hash()))
			}
			msg := ""
			switch {
			case rec.OpenErr != "":
				msg = "Open after the power failure failed: " + rec.OpenErr
			case rec.Internal != "":
				msg = "database reopened after the power failure is inconsistent: " + rec.Internal
			default:
				msg = a.check(rec.Contents, r.Sess.KeyName)
			}
			if msg != "" {
				cls, res = "power-loss", fmt.Sprintf("power failure after %d of %d file-system calls of the interleaved execution (next call %s), surviving-prefix choice {%s}: %s", im.Pos, len(log), opAt(log, im.Pos), im.Desc, msg)
				return false
			}
			return true
		})
		if st.Capped > 0 {
			c.Cap(fmt.Sprintf("more than %d power-loss images at one position of an interleaved execution: deviation-bounded enumeration used there", opts.MaxPerPos))
		}
		return cls, res
	}
}

func c06ConcCheck(c *explore.Ctx, base *explore.Base, sc *explore.Scenario, memo recMemo, verdict map[string]string) func(r *explore.ConcRun) (string, string) {
	lin := linCheck(base)
	return func(r *explore.ConcRun) (string, string) {
		if cl, msg := lin(r); msg != "" {
			return cl, msg
		}
		var wr []explore.Event
		for _, e := range r.Events {
			if e.Thread == 2 {
				wr = append(wr, e)
			}
		}
		sort.Slice(wr, func(i, j int) bool { return wr[i].Idx < wr[j].Idx })
		// models after each writer op
		models := []explore.Model{base.Model.Clone()}
		for _, e := range wr {
			m := models[len(models)-1].Clone()
			k := string(base.Keys[e.Op.Key])
			switch e.Op.Kind {
			case explore.Put:
				m[k] = e.Val
			case explore.Delete:
				delete(m, k)
			}
			models = append(models, m)
		}
		durable := func(e explore.Event) bool {
			if e.Err != "" {
				return false
			}
			switch e.Op.Kind {
			case explore.Sync:
				return true
			case explore.Put, explore.Delete:
				return base.Cfg.SyncWrites
			}
			return false
		}
		log := r.Sess.FS.Log
		opts := simfs.PowerLossOpts{ReduceUnread: true, Dir: explore.DBPath, LockName: "lock", SegmentExt: refmodel.SegmentExt, MaxPerPos: 512}
		var cls, res string
		st := simfs.PowerLossImages(base.Image, log, 0, len(log), opts, func(im simfs.Image) bool {
			t := -1
			for i, e := range wr {
				if durable(e) && e.LogPos <= im.Pos {
					t = i
				}
			}
			a := allowedSet{later: map[string]map[string]bool{}, durOp: t, strict: true, base: models[t+1]}
			for i := t + 1; i < len(wr); i++ {
				e := wr[i]
				if e.LogAt > im.Pos {
					break
				}
				if e.Op.Kind != explore.Put && e.Op.Kind != explore.Delete {
					continue
				}
				k := string(base.Keys[e.Op.Key])
				if a.later[k] == nil {
					a.later[k] = map[string]bool{}
				}
				if e.Op.Kind == explore.Delete {
					a.later[k][absentMark] = true
				} else {
					a.later[k][e.Val] = true
				}
			}
			c.Add("images", 1)
			h := im.FS.Hash()
			rec, fresh := memo.get(im.FS, base, explore.RecoverOpts{})
			if fresh {
				c.Add("recoveries", 1)
				c.Distinct("image", explore.Hash64(sc.Base, sc.Cfg, h))
			}
			// verdict memoised per (image, admissible set): the same image is judged the same way whenever it recurs
			vk := h + "|" + fmt.Sprint(t) + "|" + fmt.Sprint(len(a.later)) + "|" + fmt.Sprint(im.Pos >= 0)
			_ = vk
			msg := ""
			switch {
			case rec.OpenErr != "":
				msg = "Open after the power failure failed: " + rec.OpenErr
			case rec.Internal != "":
				msg = "database reopened after the power failure is inconsistent: " + rec.Internal
			default:
				msg = a.check(rec.Contents, r.Sess.KeyName)
			}
			if msg != "" {
				dur := "none (base image)"
				if t >= 0 {
					dur = fmt.Sprintf("%s of the writer (its op %d)", wr[t].Op, t)
				}
				cls, res = "power-loss", fmt.Sprintf("power failure after %d of %d file-system calls of the interleaved execution (next call %s; last completed durability point: %s), surviving-prefix choice {%s}: %s", im.Pos, len(log), opAt(log, im.Pos), dur, im.Desc, msg)
				return false
			}
			return true
		})
		if st.Capped > 0 {
			c.Cap(fmt.Sprintf("more than %d power-loss images at one position of an interleaved execution: deviation-bounded enumeration used there", opts.MaxPerPos))
		}
		return cls, res
	}
}

// c09FaultyClose: Close with a transient I/O error injected at each of its mutating file-system calls (that
// includes every fsync). Whether Close then returns an error or nil, a power failure at any later instant must
// leave a directory that opens with exactly the closed contents (a Close that reports success after a failed
// fsync would have released the lock over volatile files).
func c09FaultyClose(c *explore.Ctx) {
	for _, bc := range [][2]string{{"S2", "ROLL"}, {"CH", "BIGC"}, {"S4", "ROLL+SW"}} {
		base, err := explore.GetBase(bc[0], cfgPL(bc[1]), 0)
		if err != nil {
			c.HarnessError("%v", err)
		}
		explore.PinSeed(0)
		memo := recMemo{}
		for pi, pre := range [][]explore.Op{{{Kind: explore.Put, Key: base.Alpha[0]}}, {{Kind: explore.Delete, Key: base.Alpha[0]}, {Kind: explore.Put, Key: base.Alpha[1]}}} {
			if !c.Mine() {
				continue
			}
			for n := 1; n < 200; n++ {
				if c.Expired() || c.NViolations() > 0 {
					return
				}
				done, cerr, bad := c09FaultyCloseCase(c, base, bc[0], bc[1], pre, n, memo)
				if done {
					break
				}
				if bad != "" {
					c.Violation(explore.Violation{Key: fmt.Sprintf("faulty-close base=%s cfg=%s pre=%d fault@%d", bc[0], bc[1], pi, n),
						What: fmt.Sprintf("base %s/%s, [%s] then Close with a transient I/O error at its mutating file-system call #%d (Close returned %v), then a power failure: %s", bc[0], bc[1], explore.WordString(pre), n, cerr, bad), Size: n,
						Replay: map[string]interface{}{"kind": "faultyclose09", "base": bc[0], "cfg": bc[1], "pre": opsJSON(pre), "fault_at": n, "observed": bad}})
					return
				}
			}
		}
	}
}

// c09FaultyCloseCase: done = Close makes fewer than n mutating file-system calls.
func c09FaultyCloseCase(c *explore.Ctx, base *explore.Base, bname, cfg string, pre []explore.Op, n int, memo recMemo) (done bool, cerr error, bad string) {
	s := base.NewSess()
	s.FS.Record = true
	if err := s.OpenDB(); err != nil {
		c.HarnessError("Open: %v", err)
	}
	for _, o := range pre {
		_ = s.Apply(o)
	}
	before := s.FS.Mutations()
	s.FS.FailAt = before + n
	cerr = s.ProtectedClose()
	s.FS.FailAt = 0
	if s.FS.Mutations() < before+n {
		return true, nil, ""
	}
	c.Add("executions", 1)
	c.Add("faulty_close_cases", 1)
	log := s.FS.Log
	opts := simfs.PowerLossOpts{ReduceUnread: true, Dir: explore.DBPath, LockName: "lock", SegmentExt: refmodel.SegmentExt, MaxPerPos: 1024}
	// instants after Close returned (the process is gone; nothing more is written)
	simfs.PowerLossImages(base.Image, log, len(log), len(log), opts, func(im simfs.Image) bool {
		c.Add("images", 1)
		rec, fresh := memo.get(im.FS, base, explore.RecoverOpts{})
		if fresh {
			c.Add("recoveries", 1)
			c.Distinct("image", explore.Hash64("fc", bname, cfg, im.FS.Hash()))
		}
		switch {
		case rec.OpenErr != "":
			bad = "Open failed: " + rec.OpenErr
		case rec.Internal != "":
			bad = "inconsistent: " + rec.Internal
		case cerr == nil && !s.Model.Equal(rec.Contents):
			bad = "Close returned nil but the contents differ from what was closed: " + s.Model.Diff(rec.Contents, s.KeyName)
		case cerr != nil:
			// Close failed: it promised nothing; the session's unsynced writes may or may not have survived
			// (per key: the durable base value, or a value written in this session) - C06's oracle
			a := allowedSet{base: base.Model, later: map[string]map[string]bool{}, durOp: -1}
			if base.Cfg.SyncWrites {
				a.base = s.Model // every write was a durability point
			}
			for _, o := range pre {
				k := string(s.Keys[o.Key])
				if a.later[k] == nil {
					a.later[k] = map[string]bool{}
				}
				if o.Kind == explore.Delete {
					a.later[k][absentMark] = true
				} else {
					a.later[k][s.Model[k]] = true
				}
			}
			bad = a.check(rec.Contents, s.KeyName)
		}
		if bad != "" {
			bad = fmt.Sprintf("surviving-prefix choice {%s}: %s", im.Desc, bad)
			return false
		}
		return true
	})
	return false, cerr, bad
}

// c09AfterFailedCompact: a Compact that fails half-way (transient I/O error at each of its mutating calls; it may already
// have sealed the segments it picked, the current one included) is followed by a Close that returns nil: from then on
// a power failure must not lose anything - "every history before the Close" includes failed maintenance.
func c09AfterFailedCompact(c *explore.Ctx) {
	for _, bc := range [][2]string{{"S4", "ROLL"}, {"S2", "ROLL"}} {
		base, err := explore.GetBase(bc[0], cfgPL(bc[1]), 0)
		if err != nil {
			c.HarnessError("%v", err)
		}
		explore.PinSeed(0)
		memo := recMemo{}
		for pi, pre := range [][]explore.Op{{{Kind: explore.Put, Key: "a"}}, {{Kind: explore.Delete, Key: "a"}, {Kind: explore.Put, Key: "e"}}} {
			if !c.Mine() {
				continue
			}
			for n := 1; n < 200; n++ {
				if c.Expired() || c.NViolations() > 0 {
					return
				}
				done, bad := c09AfterFailedCompactCase(c, base, bc[0], bc[1], pre, n, memo)
				if done {
					break
				}
				if bad != "" {
					c.Violation(explore.Violation{Key: fmt.Sprintf("close-after-failed-compact base=%s cfg=%s pre=%d fault@%d", bc[0], bc[1], pi, n),
						What: fmt.Sprintf("base %s/%s, [%s] then Compact with a transient I/O error at its mutating file-system call #%d, then Close (returned nil), then a power failure: %s", bc[0], bc[1], explore.WordString(pre), n, bad), Size: n,
						Replay: map[string]interface{}{"kind": "failcompact09", "base": bc[0], "cfg": bc[1], "pre": opsJSON(pre), "fault_at": n, "observed": bad}})
					return
				}
			}
		}
	}
}

func c09AfterFailedCompactCase(c *explore.Ctx, base *explore.Base, bname, cfg string, pre []explore.Op, n int, memo recMemo) (done bool, bad string) {
	s := base.NewSess()
	s.FS.Record = true
	if err := s.OpenDB(); err != nil {
		c.HarnessError("Open: %v", err)
	}
	for _, o := range pre {
		_ = s.Apply(o)
	}
	before := s.FS.Mutations()
	s.FS.FailAt = before + n
	_ = s.Apply(explore.Op{Kind: explore.Compact})
	s.FS.FailAt = 0
	if s.FS.Mutations() < before+n {
		_ = s.ProtectedClose()
		return true, ""
	}
	c.Add("executions", 1)
	c.Add("failed_compact_then_close_cases", 1)
	if s.Panicked != "" {
		return false, s.Panicked
	}
	// what the session shows before Close is what Close must make durable (a failed compaction may or may not have
	// moved records; the contents are unchanged by definition)
	if cerr := s.ProtectedClose(); cerr != nil {
		return false, "" // Close reported an error: it promised nothing (C06's business)
	}
	if s.Panicked != "" {
		return false, s.Panicked
	}
	log := s.FS.Log
	opts := simfs.PowerLossOpts{ReduceUnread: true, Dir: explore.DBPath, LockName: "lock", SegmentExt: refmodel.SegmentExt, MaxPerPos: 1024}
	simfs.PowerLossImages(base.Image, log, len(log), len(log), opts, func(im simfs.Image) bool {
		c.Add("images", 1)
		rec, fresh := memo.get(im.FS, base, explore.RecoverOpts{})
		if fresh {
			c.Add("recoveries", 1)
			c.Distinct("image", explore.Hash64("fcc", bname, cfg, im.FS.Hash()))
		}
		switch {
		case rec.OpenErr != "":
			bad = "Open failed: " + rec.OpenErr
		case rec.Internal != "":
			bad = "inconsistent: " + rec.Internal
		case !s.Model.Equal(rec.Contents):
			bad = "the contents differ from what was closed: " + s.Model.Diff(rec.Contents, s.KeyName)
		}
		if bad != "" {
			bad = fmt.Sprintf("surviving-prefix choice {%s}: %s", im.Desc, bad)
			return false
		}
		return true
	})
	return false, bad
}

// c09BackupCopy: the directory a Backup produced (file data never synced by Backup) is opened as a database of its own
// (lock file present: the Open is a recovery, which seals every segment but the newest), optionally written to, and
// closed; Close returns nil: from then on a power failure must leave exactly the closed contents in THAT directory.
func c09BackupCopy(c *explore.Ctx) {
	for _, bc := range [][2]string{{"S2", "ROLL"}, {"S4", "ROLL"}, {"CH", "BIGC"}} {
		for wi, w := range [][]explore.Op{{}, {{Kind: explore.Put, Key: "W"}}} {
			if !c.Mine() {
				continue
			}
			base, err := explore.GetBase(bc[0], cfgPL(bc[1]), 0)
			if err != nil {
				c.HarnessError("%v", err)
			}
			explore.PinSeed(0)
			bad := c09BackupCopyCase(c, base, bc[0], bc[1], len(w) > 0)
			if bad != "" {
				c.Violation(explore.Violation{Key: fmt.Sprintf("backup-copy base=%s cfg=%s write=%d", bc[0], bc[1], wi),
					What: fmt.Sprintf("base %s/%s: [Put, Backup, Close]; the backup directory is opened (recovery), %d Put(s), Close returned nil, then a power failure: %s", bc[0], bc[1], len(w), bad), Size: 1,
					Replay: map[string]interface{}{"kind": "backupcopy09", "base": bc[0], "cfg": bc[1], "write": len(w) > 0, "observed": bad}})
				return
			}
		}
	}
}

func c09BackupCopyCase(c *explore.Ctx, base *explore.Base, bname, cfg string, write bool) (bad string) {
	s := base.NewSess()
	s.FS.Record = true
	if err := s.OpenDB(); err != nil {
		c.HarnessError("Open: %v", err)
	}
	if err := s.Apply(explore.Op{Kind: explore.Put, Key: base.Alpha[0]}); err != nil {
		return "Put: " + err.Error()
	}
	if err := s.Apply(explore.Op{Kind: explore.Backup}); err != nil {
		return "Backup: " + err.Error()
	}
	dir := s.LastBackup
	want := s.Model.Clone()
	if err := s.ProtectedClose(); err != nil {
		return "Close of the source: " + err.Error()
	}
	defer func() {
		if r := recover(); r != nil {
			bad = fmt.Sprintf("panic: %v", r)
		}
	}()
	db2, err := pogreb.Open(dir, base.Cfg.Options(s.FS))
	if err != nil {
		return "Open of the backup directory: " + err.Error()
	}
	if write {
		k, v := base.Keys[base.Alpha[1]], "copy-write"
		if err := db2.Put(k, []byte(v)); err != nil {
			return "Put into the opened backup: " + err.Error()
		}
		want[string(k)] = v
	}
	if err := db2.Close(); err != nil {
		return "" // Close reported an error: it promised nothing
	}
	c.Add("executions", 1)
	c.Add("backup_copy_cases", 1)
	log := s.FS.Log
	opts := simfs.PowerLossOpts{ReduceUnread: true, Dir: dir, LockName: "lock", SegmentExt: refmodel.SegmentExt, MaxPerPos: 1024}
	simfs.PowerLossImages(base.Image, log, len(log), len(log), opts, func(im simfs.Image) bool {
		c.Add("images", 1)
		sub := im.FS.SubImage(dir, explore.DBPath)
		rec := explore.RecoverImage(sub, base.Cfg, base.Keys, base.Probe, base.Seed, explore.RecoverOpts{})
		c.Add("recoveries", 1)
		c.Distinct("image", explore.Hash64("bc", bname, cfg, sub.Hash()))
		switch {
		case rec.OpenErr != "":
			bad = "Open failed: " + rec.OpenErr
		case rec.Internal != "":
			bad = "inconsistent: " + rec.Internal
		case !want.Equal(rec.Contents):
			bad = "the contents differ from what was closed: " + want.Diff(rec.Contents, s.KeyName)
		}
		if bad != "" {
			bad = fmt.Sprintf("surviving-prefix choice {%s}: %s", im.Desc, bad)
			return false
		}
		return true
	})
	return bad
}

func runC06Conc(c *explore.Ctx) {
	memos := map[string]recMemo{}
	runScenarioSet(c, c06ConcScenarios(c.Thorough()), func(base *explore.Base, sc *explore.Scenario) func(r *explore.ConcRun) (string, string) {
		k := sc.Base + "/" + sc.Cfg
		if memos[k] == nil {
			memos[k] = recMemo{}
		}
		if strings.HasPrefix(sc.Name, "W2-") {
			return c06TwoWriterCheck(c, base, sc, memos[k])
		}
		return c06ConcCheck(c, base, sc, memos[k], nil)
	})
}
