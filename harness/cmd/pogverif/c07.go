package main

import (
	"fmt"
	"strings"
	"time"

	"github.com/akrylysov/pogreb/zzverif/explore"
	"github.com/akrylysov/pogreb/zzverif/refmodel"
)

// C07: linearizability of concurrent Put/Delete/Get/GetAppend/Has/Count (with Compact, Sync,
// Backup alongside) - all interleavings at lock granularity, checked with a WGL search against
// the map model; the quiescent scan must match a final state of an accepting linearisation.

func op(kind explore.OpKind, key string) explore.Op { return explore.Op{Kind: kind, Key: key} }

// compactRefused: a Compact that returned an error while another maintenance task (Compact, Backup - or the
// background worker's) overlapped it was refused as "busy", which the API documents; the wording is not compared.
func compactRefused(r *explore.ConcRun, e explore.Event) bool {
	if strings.Contains(e.Err, "busy") {
		return true
	}
	for _, o := range r.Events {
		if (o.Op.Kind == explore.Compact || o.Op.Kind == explore.Backup) && (o.Thread != e.Thread || o.Idx != e.Idx) && o.Call < e.Ret && e.Call < o.Ret {
			return true
		}
	}
	return false
}

func linCheck(base *explore.Base) func(r *explore.ConcRun) (string, string) {
	return func(r *explore.ConcRun) (string, string) {
		for _, e := range r.Events {
			if e.Err != "" && e.Op.Kind != explore.Compact {
				return "op-error", fmt.Sprintf("%s in thread %d returned error: %s", e.Op, e.Thread, e.Err)
			}
			if e.Err != "" && e.Op.Kind == explore.Compact && !compactRefused(r, e) {
				return "op-error", fmt.Sprintf("Compact returned error: %s", e.Err)
			}
		}
		if r.FinalMsg != "" {
			return "final", "at quiescence: " + r.FinalMsg
		}
		if r.CloseErr != "" {
			return "close", "Close: " + r.CloseErr
		}
		if r.ReplayMsg != "" {
			return "replay-divergence", r.ReplayMsg
		}
		init := map[string]string{}
		for k, v := range base.Model {
			init[k] = v
		}
		ops := r.LinOps(base.Keys)
		ok, finals := refmodel.Linearize(init, ops)
		if !ok {
			return "not-linearizable", fmt.Sprintf("history is not linearizable: %v", ops)
		}
		for _, f := range finals {
			if explore.Model(f).Equal(r.Final) {
				return "", ""
			}
		}
		return "final-state", fmt.Sprintf("contents at quiescence match no accepting linearisation of %v: got %d keys", ops, len(r.Final))
	}
}

func c07Scenarios(thorough bool) []*explore.Scenario {
	var scs []*explore.Scenario
	W := []explore.Op{op(explore.Put, "a"), op(explore.Delete, "a"), op(explore.Put, "c"), op(explore.Delete, "c"), op(explore.Put, "b")}
	R := [][]explore.Op{
		{op(explore.Get, "a"), op(explore.Count, "")},
		{op(explore.Get, "c"), op(explore.Has, "a")},
		{op(explore.GetAppend, "a"), op(explore.GetAppend, "c")},
		{op(explore.Has, "c"), op(explore.Get, "a")},
		{op(explore.Count, ""), op(explore.Count, "")},
	}
	bases := []struct{ b, c string }{{"E", "BIGC"}, {"S2", "ROLL"}}
	if thorough {
		bases = append(bases, struct{ b, c string }{"CH", "BIGC"})
	}
	// F1: two writers, one reader
	for bi, bc := range bases {
		for i, w1 := range W {
			for j, w2 := range W {
				for k, w3 := range W {
					for ri, rd := range R {
						if !thorough && (i+j+k+ri+bi)%5 != 0 {
							continue // quick: a fifth of the family (every letter still occurs in every position)
						}
						w1, w2, w3 := w1, w2, w3
						if bc.b == "CH" {
							// map roles to the chained base: a->o0 (overflow), c->x (same hash as o0), b->h0
							m := map[string]string{"a": "o0", "c": "x", "b": "h0"}
							w1.Key, w2.Key, w3.Key = m[w1.Key], m[w2.Key], m[w3.Key]
							rd2 := make([]explore.Op, len(rd))
							for x, o := range rd {
								o.Key = m[o.Key]
								rd2[x] = o
							}
							rd = rd2
						}
						scs = append(scs, &explore.Scenario{Name: fmt.Sprintf("WWR-%s-%d%d%d%d", bc.b, i, j, k, ri), Base: bc.b, Cfg: bc.c,
							Threads: []explore.ThreadProg{{w1, w2}, {w3}, rd}, Bound: -1})
					}
				}
			}
		}
	}
	// F2: writer + reader + maintenance (compaction releases the lock between records)
	for _, m := range []explore.OpKind{explore.Sync, explore.Backup} {
		for i, w1 := range []explore.Op{op(explore.Put, "a"), op(explore.Delete, "a"), op(explore.Put, "e"), op(explore.Delete, "e"), op(explore.Put, "c"), op(explore.Put, "n")} {
			for j, w2 := range []explore.Op{op(explore.Put, "a"), op(explore.Delete, "b"), op(explore.Put, "e")} {
				for ri, rd := range [][]explore.Op{{op(explore.Get, "a"), op(explore.Get, "e")}, {op(explore.Has, "e"), op(explore.Count, "")}, {op(explore.GetAppend, "e"), op(explore.Get, "b")}} {
					if !thorough && (i+j+ri)%3 != 0 {
						continue
					}
					scs = append(scs, &explore.Scenario{Name: fmt.Sprintf("WRM-%s-%d%d%d", m, i, j, ri), Base: "S2", Cfg: "ROLL",
						Threads: []explore.ThreadProg{{w1, w2}, rd, {op(m, "")}}, Bound: -1})
				}
			}
		}
	}
	// F3: split in flight
	for i, w := range []explore.Op{op(explore.Put, "n1"), op(explore.Put, "n2"), op(explore.Delete, "o0")} {
		for j, rd := range [][]explore.Op{{op(explore.Get, "o0"), op(explore.Get, "m2")}, {op(explore.Has, "h0"), op(explore.Count, "")}, {op(explore.Get, "n1"), op(explore.Get, "b1")}} {
			scs = append(scs, &explore.Scenario{Name: fmt.Sprintf("SPLIT-%d%d", i, j), Base: "SP", Cfg: "BIGC",
				Threads: []explore.ThreadProg{{w, op(explore.Put, "n3")}, rd, {op(explore.Count, ""), op(explore.Get, "m2")}}, Bound: -1})
		}
	}
	// F4: Items scans running alongside writers and maintenance (scan oracles of C11: truthful, complete for untouched keys)
	for i, w := range []explore.ThreadProg{{op(explore.Put, "a"), op(explore.Delete, "e")}, {op(explore.Delete, "a"), op(explore.Put, "n")}, {op(explore.Put, "e"), op(explore.Put, "e")}} {
		for _, m := range []explore.OpKind{explore.Compact, explore.Sync} {
			if !thorough && m == explore.Sync && i > 0 {
				continue
			}
			scs = append(scs, &explore.Scenario{Name: fmt.Sprintf("WSM-%s-%d", m, i), Base: "S2", Cfg: "ROLL",
				Threads: []explore.ThreadProg{w, {op(explore.Scan, ""), op(explore.Count, "")}, {op(m, "")}}, Bound: -1, QuietPop: true})
		}
	}
	// F6: an Items scan while an insert splits a bucket (the keys it moves go to a bucket that did not exist when the scan
	// began; on MS the split happens behind the scan's position): a key nobody touches must be reported exactly once
	for i, x := range []struct {
		base string
		w    explore.ThreadProg
	}{{"SP", explore.ThreadProg{op(explore.Put, "n1")}}, {"SP", explore.ThreadProg{op(explore.Put, "n2"), op(explore.Put, "n3")}}, {"MS", explore.ThreadProg{op(explore.Put, "n3")}}, {"SC", explore.ThreadProg{op(explore.Put, "nA")}}} {
		scs = append(scs, &explore.Scenario{Name: fmt.Sprintf("SCANSPLIT-%s-%d", x.base, i), Base: x.base, Cfg: "BIGC",
			Threads: []explore.ThreadProg{{op(explore.Scan, ""), op(explore.Count, "")}, x.w}, Bound: -1, QuietPop: true})
	}
	// F7: Backup runs alongside a writer and Compact (file-system calls on segment files are scheduling points: the window
	// between Backup's snapshot of the segment list and its copy loop). The history must be linearizable AND the backup,
	// opened, must hold the contents of one instant between Backup's call and return (C12's cut oracle).
	for i, w := range []explore.ThreadProg{{op(explore.Put, "a")}, {op(explore.Delete, "a"), op(explore.Put, "e")}} {
		scs = append(scs, &explore.Scenario{Name: fmt.Sprintf("BK-Compact-%d", i), Base: "S2", Cfg: "ROLL",
			Threads: []explore.ThreadProg{{op(explore.Backup, "")}, w, {op(explore.Compact, "")}}, Bound: -1, FSYield: true, YieldDirOnly: true, Record: true})
	}
	// F8: readers (and a writer) directly on the repository's fs.OS / fs.OSMMap, every file-system call a scheduling
	// point: records of one segment file and buckets of one index file read by two threads under the shared lock
	for _, kind := range []string{"os", "osmmap"} {
		scs = append(scs, &explore.Scenario{Name: "RFS-RR-" + kind, Base: "CH", Cfg: "BIGC", Threads: []explore.ThreadProg{{op(explore.Get, "h0"), op(explore.Has, "o0")}, {op(explore.Get, "h1")}}, Bound: 3, WrapFS: kind})
		scs = append(scs, &explore.Scenario{Name: "RFS-RW-" + kind, Base: "CH", Cfg: "BIGC", Threads: []explore.ThreadProg{{op(explore.Get, "h0"), op(explore.Get, "o0")}, {op(explore.Put, "o0")}}, Bound: 3, WrapFS: kind})
	}
	// F5: sync-after-every-write mode (Put/Delete end with an fsync inside their critical section) next to Compact and readers
	for i, w := range []explore.ThreadProg{{op(explore.Put, "e"), op(explore.Put, "a")}, {op(explore.Delete, "a"), op(explore.Put, "n")}, {op(explore.Put, "b"), op(explore.Delete, "e")}} {
		for j, rd := range [][]explore.Op{{op(explore.Get, "e"), op(explore.Get, "a")}, {op(explore.Has, "b"), op(explore.Count, "")}} {
			if !thorough && (i+j)%2 == 1 {
				continue
			}
			scs = append(scs, &explore.Scenario{Name: fmt.Sprintf("SW-Compact-%d%d", i, j), Base: "S2", Cfg: "ROLL+SW", Threads: []explore.ThreadProg{w, rd, {op(explore.Compact, "")}}, Bound: -1})
		}
	}
	for i, w := range []explore.ThreadProg{{op(explore.Put, "e")}, {op(explore.Put, "a")}, {op(explore.Delete, "e")}} {
		scs = append(scs, &explore.Scenario{Name: fmt.Sprintf("SW4-Compact-%d", i), Base: "S4", Cfg: "ROLL+SW", Threads: []explore.ThreadProg{w, {op(explore.Get, "e"), op(explore.Get, "a")}, {op(explore.Compact, "")}}, Bound: -1})
	}
	// F2 with Compact last (the largest interleaving spaces get whatever time is left)
	for i, w1 := range []explore.Op{op(explore.Put, "a"), op(explore.Delete, "a"), op(explore.Put, "e"), op(explore.Delete, "e"), op(explore.Put, "c"), op(explore.Put, "n")} {
		for j, w2 := range []explore.Op{op(explore.Put, "a"), op(explore.Delete, "b"), op(explore.Put, "e")} {
			for ri, rd := range [][]explore.Op{{op(explore.Get, "a"), op(explore.Get, "e")}, {op(explore.Has, "e"), op(explore.Count, "")}, {op(explore.GetAppend, "e"), op(explore.Get, "b")}} {
				if !thorough && (i*3+j+ri*2)%6 != 0 {
					continue
				}
				scs = append(scs, &explore.Scenario{Name: fmt.Sprintf("WRM-Compact-%d%d%d", i, j, ri), Base: "S2", Cfg: "ROLL",
					Threads: []explore.ThreadProg{{w1, w2}, rd, {op(explore.Compact, "")}}, Bound: -1})
			}
		}
	}
	return scs
}

func runScenarioSet(c *explore.Ctx, scs []*explore.Scenario, mkCheck func(base *explore.Base, sc *explore.Scenario) func(r *explore.ConcRun) (string, string)) {
	var mine []*explore.Scenario
	for _, sc := range scs {
		if only := c.Args["only"]; only != "" && sc.Name != only {
			continue
		}
		if c.Mine() {
			mine = append(mine, sc)
		}
	}
	for i, sc := range mine {
		if c.Expired() || c.NViolations() > 0 {
			return
		}
		base, err := explore.GetBase(sc.Base, cfgPL(sc.Cfg), 0)
		if err != nil {
			c.HarnessError("%v", err)
		}
		explore.PinSeed(0)
		// time slice: an equal share of what is left, at least 2 s
		left := time.Until(c.Deadline)
		share := left / time.Duration(len(mine)-i)
		if share < 2*time.Second {
			share = 2 * time.Second
		}
		v, st := explore.ExploreScenario(c, sc, base, time.Now().Add(share), mkCheck(base, sc))
		c.Add("scenarios", 1)
		c.Add("choice_points", st.Points)
		c.Outcome("completed_preemption_bound", st.BoundName())
		if st.CompletedBound == -1 {
			c.Add("scenarios_unbounded_complete", 1)
		}
		if st.Truncated {
			c.Cap(fmt.Sprintf("time slice ended in scenario %s: completed preemption bound %s", sc.Name, st.BoundName()))
		}
		if v != nil {
			c.Violation(*v)
		}
		c.Sample(map[string]interface{}{"scenario": sc.Describe(), "schedules": st.Execs, "max_choice_points": st.MaxDepth, "completed_preemption_bound": st.BoundName(), "schedules_in_last_completed_pass": st.LastPassExecs})
	}
}

func boundName(b int) string {
	if b < 0 {
		return "unbounded"
	}
	return fmt.Sprint(b)
}

func runC07(c *explore.Ctx) {
	bkMemo := map[string]*explore.Recovered{}
	runScenarioSet(c, c07Scenarios(c.Thorough()), func(base *explore.Base, sc *explore.Scenario) func(r *explore.ConcRun) (string, string) {
		if strings.HasPrefix(sc.Name, "BK-") {
			return c12Check(c, base, sc, bkMemo)
		}
		lin := linCheck(base)
		return func(r *explore.ConcRun) (string, string) {
			if cl, msg := lin(r); msg != "" {
				return cl, msg
			}
			for _, e := range r.Events {
				if e.Op.Kind == explore.Scan {
					if cl, msg := scanOracle(r, base, e); msg != "" {
						return cl, msg
					}
				}
			}
			return "", ""
		}
	})
}

func init() {
	explore.Register(&explore.CheckInfo{
		Prop:  "C07",
		Level: "model_checking",
		Rule: "scenario families (2 writers + reader on colliding keys a/c; writer + reader + {Compact,Sync,Backup} on a 3-segment base under ROLL; writers + readers across an index split): ALL interleavings at lock-operation granularity (unbounded preemptions) of the real code under the vsync scheduler; " +
			"every complete call/return history is checked by a WGL linearizability search against the map model (Count included) and the quiescent full scan must equal a final state of an accepting linearisation; distinct_nontrivial/states = distinct observed outcomes (read results + final contents) over all scenarios",
		Assumptions: []string{"scheduling points are the operations of sync.Mutex/RWMutex/WaitGroup (shim), which is sufficient provided accesses outside critical sections are race-free (C10's free-running -race pass)",
			"thread programs have <= 2 operations; 3-4 threads"},
		QuickBudget:   100 * time.Second,
		ASLimitMB:     1 << 20, // fs.OSMMap reserves a gigabyte of address space per open file
		ThorBudget:    25 * time.Minute,
		Run:           runC07,
		EvalKey:       "executions",
		DistinctClass: "outcome",
		StatesKey:     "distinct:outcome",
		TransKey:      "transitions",
		TracesKey:     "executions",
	})
	_ = time.Second
}
