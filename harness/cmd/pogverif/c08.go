package main

import (
	"bytes"
	"encoding/base64"
	"encoding/binary"
	"fmt"
	"os"
	"path/filepath"
	"runtime"
	"sort"
	"strings"
	"time"

	"github.com/akrylysov/pogreb"
	"github.com/akrylysov/pogreb/fs"
	"github.com/akrylysov/pogreb/zzverif/explore"
	"github.com/akrylysov/pogreb/zzverif/refmodel"
	"github.com/akrylysov/pogreb/zzverif/simfs"
)

// C08 / C19: damaged segment tails. Every truncation, every single-bit flip, every tail of a garbage
// alphabet is applied to the image of a cleanly written directory marked unclean (lock file
// present); the recovering Open is compared with the independent decoder's replay.

type kvShape struct{ K, V int }

type tailDir struct {
	Name   string
	Img    *simfs.FS // cleanly closed, lock file added
	Cfg    explore.Config
	Segs   []string // segment names, oldest first
	Target string   // the segment that gets damaged by truncations/flips
}

func shapeKey(i, n int) []byte {
	b := bytes.Repeat([]byte{byte('A' + i%26)}, n)
	if n >= 2 {
		b[n-1] = byte('0' + i%10)
	}
	return b
}

func shapeVal(i, n int) []byte {
	b := make([]byte, n)
	for j := range b {
		b[j] = byte((i*31 + j*7) % 251)
	}
	return b
}

type scriptOp struct {
	Del bool
	K   []byte
	V   []byte
}

func buildTailDir(name string, cfg explore.Config, script []scriptOp, target int) (*tailDir, error) {
	explore.PinSeed(0)
	fsys := simfs.New()
	db, err := pogreb.Open(explore.DBPath, cfg.Options(fsys))
	if err != nil {
		return nil, err
	}
	for _, o := range script {
		if o.Del {
			err = db.Delete(o.K)
		} else {
			err = db.Put(o.K, o.V)
		}
		if err != nil {
			return nil, err
		}
	}
	var segs []string
	for _, sg := range db.VerifSegments() {
		segs = append(segs, sg.Name)
	}
	if err := db.Close(); err != nil {
		return nil, err
	}
	img := fsys.Clone()
	img.SetBytes(explore.DBPath+"/lock", nil)
	if target < 0 {
		target += len(segs)
	}
	return &tailDir{Name: name, Img: img, Cfg: cfg, Segs: segs, Target: segs[target]}, nil
}

func puts(shapes ...kvShape) []scriptOp {
	var s []scriptOp
	for i, sh := range shapes {
		s = append(s, scriptOp{K: shapeKey(i, sh.K), V: shapeVal(i, sh.V)})
	}
	return s
}

func tailDirs(thorough bool) ([]*tailDir, error) {
	var dirs []*tailDir
	add := func(name string, cfg explore.Config, script []scriptOp, target int) error {
		d, err := buildTailDir(name, cfg, script, target)
		if err != nil {
			return fmt.Errorf("building %s: %v", name, err)
		}
		dirs = append(dirs, d)
		return nil
	}
	// D1: small records inside the first bufio window
	if err := add("D1-small", explore.BIGC, puts(kvShape{1, 1}, kvShape{3, 500}, kvShape{0, 0}, kvShape{1, 0}, kvShape{2, 1}), -1); err != nil {
		return nil, err
	}
	// D2: final record straddles file offset 512+4096 (end of the first bufio window) and 512-byte boundaries
	if err := add("D2-window", explore.BIGC, puts(kvShape{3, 500}, kvShape{4, 499}, kvShape{5, 498}, kvShape{6, 497}, kvShape{7, 496}, kvShape{8, 495}, kvShape{9, 494}, kvShape{10, 493}), -1); err != nil {
		return nil, err
	}
	// D3: final record larger than the bufio buffer
	if err := add("D3-bigger-than-buffer", explore.BIGC, puts(kvShape{1, 1}, kvShape{16, 4090}), -1); err != nil {
		return nil, err
	}
	// D5: three segments; the middle one is damaged so that recovery has to continue with the next
	seg := explore.Config{Name: "SEG3", MaxSeg: 512 + 3*40, MinSeg: 1, MinFrag: 1e-9}
	a, b, cc, d, e := []byte("a"), []byte("b"), []byte("ccc"), []byte("d"), []byte("e")
	script := []scriptOp{
		{K: a, V: shapeVal(1, 20)}, {K: b, V: shapeVal(2, 20)}, {K: cc, V: shapeVal(3, 20)},
		{K: a, V: shapeVal(4, 20)}, {Del: true, K: b}, {K: d, V: shapeVal(5, 20)},
		{K: e, V: shapeVal(6, 20)},
	}
	if err := add("D5-middle-of-three", seg, script, 1); err != nil {
		return nil, err
	}
	if err := add("D6-oldest-of-three", seg, script, 0); err != nil {
		return nil, err
	}
	// D7: the 6-byte length prefix of the final record straddles the end of the first bufio window
	// (one record of exactly 4093 bytes, so the next one starts at file offset 512+4096-3)
	if err := add("D7-header-straddles-window", explore.BIGC, puts(kvShape{3, 4080}, kvShape{2, 1}, kvShape{1, 3}), -1); err != nil {
		return nil, err
	}
	// D8: a key close to the 65535-byte limit (6 + key size overflows 16 bits) followed by small records
	if err := add("D8-long-key", explore.BIGC, puts(kvShape{1, 1}, kvShape{65531, 2}, kvShape{2, 1}), -1); err != nil {
		return nil, err
	}
	// D4: 70 KB record
	if err := add("D4-70KB", explore.BIGC, puts(kvShape{3, 500}, kvShape{300, 70000}), -1); err != nil {
		return nil, err
	}
	return dirs, nil
}

// lastRecords returns the decoded records of the target segment.
func (d *tailDir) records() []refmodel.Record {
	return refmodel.DecodeSegment(d.Img.Bytes(explore.DBPath + "/" + d.Target)).Records
}

type damage struct {
	Desc string
	Seg  string
	Data []byte // new content of the segment
	// expectation for flips confined to key/value/CRC bytes: number of records the decoder must still accept
	WantRecords int
}

// tailOracle recovers the damaged image and compares with the independent decoder.
func tailOracle(c *explore.Ctx, d *tailDir, dm damage, life bool) string {
	img := d.Img.Clone()
	img.SetBytes(explore.DBPath+"/"+dm.Seg, dm.Data)
	files := explore.SegmentFiles(img)
	dec := refmodel.ReplayDir(files)
	if dec.Err != "" {
		c.HarnessError("decoder: %s", dec.Err)
	}
	if dm.WantRecords >= 0 && len(dec.Decodes[dm.Seg].Records) != dm.WantRecords {
		c.HarnessError("independent decoder accepted %d records of %s after %s, expected %d (CRC32 detects every single-bit error)", len(dec.Decodes[dm.Seg].Records), dm.Seg, dm.Desc, dm.WantRecords)
	}
	want := explore.ModelFromDecode(dec)
	c.Add("images", 1)
	c.Distinct("image", explore.Hash64(d.Name, img.Hash()))
	var totalSeg int64
	for _, b := range files {
		totalSeg += int64(len(b))
	}
	var ms0, ms1 runtime.MemStats
	runtime.ReadMemStats(&ms0)
	r := explore.RecoverImage(img, d.Cfg, nil, nil, 0, explore.RecoverOpts{KeepAfter: true})
	runtime.ReadMemStats(&ms1)
	if r.OpenErr != "" {
		return "recovering Open failed: " + r.OpenErr
	}
	if r.Internal != "" {
		return "recovered database inconsistent: " + r.Internal
	}
	if !want.Equal(r.Contents) {
		return "recovered contents differ from the records a validating reader accepts: " + want.Diff(r.Contents, func(k string) string { return fmt.Sprintf("%q", k) })
	}
	for name, sd := range dec.Decodes {
		if got := int64(len(r.After.Bytes(explore.DBPath + "/" + name))); got != sd.ValidEnd {
			return fmt.Sprintf("segment %s is %d bytes long after recovery, the last valid record ends at %d (decoder stopped: %s)", name, got, sd.ValidEnd, sd.Stop)
		}
	}
	// C19's oracles are evaluated on every case of C08 as well (recorded, decided in C19)
	alloc := int64(ms1.TotalAlloc - ms0.TotalAlloc)
	if alloc > c19AllocBound(totalSeg) || img.Stats.MaxReadLen > totalSeg+4096 {
		c.Add("c19_cost_exceeded", 1)
	}
	if !life {
		return ""
	}
	// life after recovery: one Put, clean Close, unclean reopen - the discarded tail stays discarded
	s := &explore.Sess{FS: r.After, Cfg: d.Cfg, Model: r.Contents.Clone(), Keys: map[string][]byte{"new": []byte("new-key")}}
	if err := s.OpenDB(); err != nil {
		return "Open after recovery + Close failed: " + err.Error()
	}
	if err := s.Apply(explore.Op{Kind: explore.Put, Key: "new"}); err != nil {
		return "Put after recovery failed: " + err.Error()
	}
	if err := s.DB.Close(); err != nil {
		return "Close failed: " + err.Error()
	}
	img2 := s.FS.Clone()
	img2.SetBytes(explore.DBPath+"/lock", nil)
	r2 := explore.RecoverImage(img2, d.Cfg, nil, nil, 0, explore.RecoverOpts{})
	if r2.OpenErr != "" {
		return "second recovery failed: " + r2.OpenErr
	}
	if !s.Model.Equal(r2.Contents) {
		return "after recovery, one Put, Close and another recovery: " + s.Model.Diff(r2.Contents, func(k string) string { return fmt.Sprintf("%q", k) })
	}
	return ""
}

func c19AllocBound(segBytes int64) int64 { return 8*segBytes + 4<<20 }

func flipPositions(rec refmodel.Record, all bool) []int64 {
	var pos []int64
	n := rec.Size
	if all || n <= 400 {
		for i := int64(0); i < n; i++ {
			pos = append(pos, i)
		}
		return pos
	}
	ks, vs := int64(len(rec.Key)), int64(len(rec.Value))
	addRange := func(lo, hi int64) {
		for i := lo; i < hi && i < n; i++ {
			if i >= 0 {
				pos = append(pos, i)
			}
		}
	}
	addRange(0, 6)
	addRange(6, 6+min64(ks, 64))
	addRange(6+ks-min64(ks, 64), 6+ks)
	addRange(6+ks, 6+ks+min64(vs, 64))
	addRange(6+ks+vs-min64(vs, 64), 6+ks+vs)
	addRange(n-4, n)
	// plus one byte in every 512-byte sector of the value
	for i := 6 + ks + 64; i < 6+ks+vs-64; i += 509 {
		pos = append(pos, i)
	}
	sort.Slice(pos, func(i, j int) bool { return pos[i] < pos[j] })
	var u []int64
	for i, p := range pos {
		if i == 0 || p != pos[i-1] {
			u = append(u, p)
		}
	}
	return u
}

func min64(a, b int64) int64 {
	if a < b {
		return a
	}
	return b
}

func garbageTails(valid []byte, liveKey []byte, remaining int) map[string][]byte {
	t := map[string][]byte{}
	for _, n := range []int{1, 2, 3, 4, 5, 6, 7, 8, 9, 10, 11, 12, 13, 14, 15, 16, 511, 512, 513, 4096} {
		t[fmt.Sprintf("zero%d", n)] = make([]byte, n)
		t[fmt.Sprintf("ff%d", n)] = bytes.Repeat([]byte{0xff}, n)
	}
	good := refmodel.EncodeRecord([]byte("zz"), []byte("never-written"), false)
	bad := append([]byte(nil), good...)
	bad[len(bad)-1] ^= 0x40
	t["badcrc+valid"] = append(append([]byte(nil), bad...), good...)
	del := refmodel.EncodeRecord(liveKey, nil, true)
	del[len(del)-2] ^= 0x01
	t["delete-live-key-badcrc"] = del
	t["valid-never-written-after-3-garbage"] = append([]byte{1, 2, 3}, good...)
	// header claiming lengths that run exactly to / one past the end of the tail
	for _, extra := range []int{0, 1} {
		body := 40
		hdr := make([]byte, 6)
		binary.LittleEndian.PutUint16(hdr[0:2], 3)
		binary.LittleEndian.PutUint32(hdr[2:6], uint32(body-6-3-4+extra))
		tail := append(hdr, bytes.Repeat([]byte{0x5a}, body-6)...)
		t[fmt.Sprintf("claims-to-eof+%d", extra)] = tail
	}
	return t
}

func runC08(c *explore.Ctx) {
	dirs, err := tailDirs(c.Thorough())
	if err != nil {
		c.HarnessError("%v", err)
	}
	report := func(d *tailDir, dm damage, msg string) bool {
		return c.Violation(explore.Violation{
			Key:    fmt.Sprintf("dir=%s %s", d.Name, dm.Desc),
			What:   fmt.Sprintf("directory %s, segment %s, %s: %s", d.Name, dm.Seg, dm.Desc, msg),
			Size:   len(dm.Desc),
			Replay: map[string]interface{}{"kind": "tail08", "dir": d.Name, "seg": dm.Seg, "damage": dm.Desc, "data_b64": base64.StdEncoding.EncodeToString(dm.Data), "observed": msg},
		})
	}
	for _, d := range dirs {
		if c.Expired() || c.NViolations() > 0 {
			return
		}
		orig := d.Img.Bytes(explore.DBPath + "/" + d.Target)
		recs := d.records()
		if len(recs) < 2 {
			c.HarnessError("dir %s: target segment has %d records", d.Name, len(recs))
		}
		last, prev := recs[len(recs)-1], recs[len(recs)-2]
		// 1. truncations: every length inside the final two records
		step := int64(1)
		if !c.Thorough() && last.Size > 5000 {
			step = 7
		}
		for cut := prev.Offset; cut < last.Offset+last.Size; cut++ {
			if cut > prev.Offset+600 && cut < last.Offset+last.Size-600 && cut%step != 0 && cut != last.Offset {
				continue
			}
			if !c.Mine() {
				continue
			}
			if c.Expired() {
				return
			}
			dm := damage{Desc: fmt.Sprintf("truncated to %d bytes (record boundaries %d,%d,%d)", cut, prev.Offset, last.Offset, last.Offset+last.Size), Seg: d.Target, Data: orig[:cut], WantRecords: -1}
			c.Add("truncations", 1)
			if msg := tailOracle(c, d, dm, cut%5 == 0); msg != "" {
				if report(d, dm, msg) {
					return
				}
			}
		}
		// 2. single-bit flips in the final and the second-to-last record
		for ri, rec := range []refmodel.Record{last, prev} {
			idx := len(recs) - 1 - ri
			for _, p := range flipPositions(rec, c.Thorough()) {
				for bit := 0; bit < 8; bit++ {
					if !c.Mine() {
						continue
					}
					if c.Expired() {
						return
					}
					data := append([]byte(nil), orig...)
					data[rec.Offset+p] ^= 1 << uint(bit)
					want := -1
					if p >= 6 {
						want = idx // flip confined to key/value/CRC: exactly the earlier records survive
					}
					dm := damage{Desc: fmt.Sprintf("bit %d of byte %d of record %d (of %d) flipped", bit, p, idx, len(recs)), Seg: d.Target, Data: data, WantRecords: want}
					c.Add("bitflips", 1)
					if msg := tailOracle(c, d, dm, false); msg != "" {
						if report(d, dm, msg) {
							return
						}
					}
				}
			}
		}
		// 3. garbage tails appended to every segment
		for _, seg := range d.Segs {
			sb := d.Img.Bytes(explore.DBPath + "/" + seg)
			tails := garbageTails(sb, recs[0].Key, 0)
			var names []string
			for n := range tails {
				names = append(names, n)
			}
			sort.Strings(names)
			for _, n := range names {
				if !c.Mine() {
					continue
				}
				dm := damage{Desc: "tail " + n + " appended", Seg: seg, Data: append(append([]byte(nil), sb...), tails[n]...), WantRecords: -1}
				c.Add("garbage_tails", 1)
				if msg := tailOracle(c, d, dm, true); msg != "" {
					if report(d, dm, msg) {
						return
					}
				}
			}
		}
		c.Sample(map[string]interface{}{"dir": d.Name, "segments": d.Segs, "damaged_segment": d.Target, "records_in_it": len(recs), "last_record_bytes": last.Size})
	}
}

// ---------------------------------------------------------------------------------------------
// C19

func runC19(c *explore.Ctx) {
	seg := explore.Config{Name: "SEG3", MaxSeg: 512 + 3*40, MinSeg: 1, MinFrag: 1e-9}
	script := []scriptOp{
		{K: []byte("a"), V: shapeVal(1, 20)}, {K: []byte("b"), V: shapeVal(2, 20)}, {K: []byte("ccc"), V: shapeVal(3, 20)},
		{K: []byte("a"), V: shapeVal(4, 20)}, {Del: true, K: []byte("b")}, {K: []byte("d"), V: shapeVal(5, 20)},
		{K: []byte("e"), V: shapeVal(6, 20)},
	}
	d, err := buildTailDir("H-three-segments", seg, script, -1)
	if err != nil {
		c.HarnessError("%v", err)
	}
	keySizes := []uint32{0, 1, 255, 256, 32767, 65535}
	valSizes := []uint32{0, 1, 1 << 8, 1 << 12, 1 << 16, 1 << 20, 1 << 24, 1 << 28, 1 << 30, 1<<31 - 1}
	good := refmodel.EncodeRecord([]byte("zz"), []byte("never-written"), false)
	follow := map[string][]byte{"none": nil, "zero1": make([]byte, 1), "zero2": make([]byte, 2), "zero3": make([]byte, 3), "zero4": make([]byte, 4), "ff5": bytes.Repeat([]byte{0xff}, 5), "ff9": bytes.Repeat([]byte{0xff}, 9), "zero1000": make([]byte, 1000), "ff1000": bytes.Repeat([]byte{0xff}, 1000), "valid-records": append(append([]byte(nil), good...), good...)}
	var fnames []string
	for n := range follow {
		fnames = append(fnames, n)
	}
	sort.Strings(fnames)
	for _, segName := range []string{d.Segs[len(d.Segs)-1], d.Segs[0]} {
		sb := d.Img.Bytes(explore.DBPath + "/" + segName)
		for _, fn := range fnames {
			// "exactly to EOF" and "EOF+1" relative to the follow-up bytes
			vals := append([]uint32(nil), valSizes...)
			for _, ks := range keySizes {
				for _, del := range []bool{false, true} {
					vs2 := append([]uint32(nil), vals...)
					if n := len(follow[fn]) - int(ks) - 4; n >= 0 {
						vs2 = append(vs2, uint32(n), uint32(n+1))
					}
					for _, vs := range vs2 {
						if !c.Mine() {
							continue
						}
						if c.Expired() {
							return
						}
						hdr := make([]byte, 6)
						binary.LittleEndian.PutUint16(hdr[0:2], uint16(ks))
						v := vs
						if del {
							v |= 1 << 31
						}
						binary.LittleEndian.PutUint32(hdr[2:6], v)
						data := append(append(append([]byte(nil), sb...), hdr...), follow[fn]...)
						desc := fmt.Sprintf("header keySize=%d valueSize=%d delete=%v followed by %s appended to %s", ks, vs, del, fn, segName)
						msg := c19Case(c, d, segName, data, desc)
						if msg == "" && (vs == 1<<20 || vs == 1<<24 || vs == 1<<28) && (ks == 0 || ks == 65535) && (fn == "none" || fn == "ff1000") {
							// the same image on the real file systems: the bound must not depend on how a FileSystem's
							// Slice/ReadAt happen to treat a request that runs past the end of the file
							for _, kind := range []string{"os", "osmmap"} {
								if msg = c19RealCase(c, d, segName, data, kind); msg != "" {
									msg = "on fs=" + kind + ": " + msg
									break
								}
							}
						}
						if msg != "" {
							if c.Violation(explore.Violation{
								Key:    "cost: " + desc,
								What:   desc + ": " + msg,
								Size:   int(ks%7) + len(fn),
								Replay: map[string]interface{}{"kind": "hdr19", "seg": segName, "keySize": ks, "valueSize": vs, "delete": del, "follow": fn, "data_b64": base64.StdEncoding.EncodeToString(data), "dir": d.Name, "observed": msg},
							}) {
								return
							}
						}
					}
				}
			}
		}
	}
}

// c19RealCase recovers the damaged directory through fs.OS / fs.OSMMap (scratch directory under /dev/shm).
func c19RealCase(c *explore.Ctx, d *tailDir, segName string, data []byte, kind string) string {
	img := d.Img.Clone()
	img.SetBytes(explore.DBPath+"/"+segName, data)
	files := explore.SegmentFiles(img)
	want := explore.ModelFromDecode(refmodel.ReplayDir(files))
	var totalSeg int64
	for _, b := range files {
		totalSeg += int64(len(b))
	}
	dir, err := os.MkdirTemp("/dev/shm", "pogverif-c19-")
	if err != nil {
		return ""
	}
	defer os.RemoveAll(dir)
	var fsys fs.FileSystem = fs.OS
	if kind == "osmmap" {
		fsys = fs.OSMMap
	}
	if err := copyImage(img, fsys, filepath.Join(dir, "db")); err != nil {
		return ""
	}
	c.Add("images", 1)
	c.Add("real_fs_cases", 1)
	runtime.GC()
	var ms0, ms1 runtime.MemStats
	runtime.ReadMemStats(&ms0)
	explore.PinSeed(0)
	db, err := pogreb.Open(filepath.Join(dir, "db"), d.Cfg.Options(fsys))
	runtime.ReadMemStats(&ms1)
	if err != nil {
		return "recovering Open failed: " + err.Error()
	}
	defer db.Close()
	if alloc := int64(ms1.TotalAlloc - ms0.TotalAlloc); alloc > c19AllocBound(totalSeg) {
		return fmt.Sprintf("recovery allocated %d bytes for %d bytes of segment files (bound 8x + 4 MiB)", alloc, totalSeg)
	}
	all, err := explore.ReadAll(db)
	if err != nil {
		return err.Error()
	}
	if !want.Equal(all) {
		return "contents after recovery differ from the replay of the valid record prefixes"
	}
	return ""
}

func c19Case(c *explore.Ctx, d *tailDir, segName string, data []byte, desc string) string {
	img := d.Img.Clone()
	img.SetBytes(explore.DBPath+"/"+segName, data)
	files := explore.SegmentFiles(img)
	dec := refmodel.ReplayDir(files)
	want := explore.ModelFromDecode(dec)
	var totalSeg int64
	for _, b := range files {
		totalSeg += int64(len(b))
	}
	c.Add("images", 1)
	c.Distinct("image", explore.Hash64(img.Hash()))
	runtime.GC()
	var ms0, ms1 runtime.MemStats
	runtime.ReadMemStats(&ms0)
	s := &explore.Sess{FS: img, Cfg: d.Cfg}
	err := s.OpenDB()
	runtime.ReadMemStats(&ms1)
	if err != nil {
		return "recovering Open failed: " + err.Error()
	}
	defer s.DB.Close()
	alloc := int64(ms1.TotalAlloc - ms0.TotalAlloc)
	c.Outcome("alloc_bucket", fmt.Sprintf("<=%dKiB", 1<<uint(bitsLen(alloc>>10))))
	if img.Stats.MaxReadLen > totalSeg+4<<20 {
		// (a constant-size read buffer is not "proportional to the claimed lengths": same slack as the allocation bound)
		return fmt.Sprintf("recovery requested a single read of %d bytes; the segment files hold %d bytes in total", img.Stats.MaxReadLen, totalSeg)
	}
	if alloc > c19AllocBound(totalSeg) {
		return fmt.Sprintf("recovery allocated %d bytes for %d bytes of segment files (bound 8x + 4 MiB)", alloc, totalSeg)
	}
	all, err := explore.ReadAll(s.DB)
	if err != nil {
		return err.Error()
	}
	if !want.Equal(all) {
		return "recovered contents differ from the valid prefix: " + want.Diff(all, func(k string) string { return fmt.Sprintf("%q", k) })
	}
	return ""
}

func bitsLen(x int64) int {
	n := 0
	for x > 0 {
		n++
		x >>= 1
	}
	return n
}

func init() {
	explore.Register(&explore.CheckInfo{
		Prop:  "C08",
		Level: "fault_enumeration",
		Rule: "directories with 1 and 3 segments whose damaged segment ends in records of shapes (k,v) in {(2,1),(10,493) straddling the bufio window,(16,4090) larger than the buffer,(300,70000),(1,20)}: every truncation length inside the final two records, every single-bit flip of the final and second-to-last record " +
			"(quick: a boundary subset of byte positions for the 70 KB record), every tail of the garbage alphabet appended to the newest, middle and oldest segment; each image (lock file present) is opened by the real recovery and compared with the independent decoder's replay (contents, Count, per-segment length after recovery), then one Put + Close + second recovery; distinct_nontrivial = distinct damaged images",
		Assumptions:   []string{"the independent decoder (refmodel/decoder.go, written from docs/design.md) defines 'valid record prefix'", "garbage alphabet and record shapes as listed; not all byte strings"},
		QuickBudget:   100 * time.Second,
		ThorBudget:    25 * time.Minute,
		Run:           runC08,
		EvalKey:       "images",
		DistinctClass: "image",
	})
	explore.Register(&explore.CheckInfo{
		Prop:      "C19",
		ASLimitMB: 1 << 20, // fs.OSMMap reserves 1 GiB of address space per open file
		Level:     "fault_enumeration",
		Rule: "after the last valid record of the newest / the oldest segment of a 3-segment directory: every 6-byte header from keySize {0,1,255,256,32767,65535} x valueSize {0,1,2^8,2^12,2^16,2^20,2^24,2^28,2^30,2^31-1, exactly-to-EOF, EOF+1} x {put,delete} followed by {nothing, 3/4/1000 zero bytes, 1000 0xFF bytes, two valid records}; " +
			"oracle: Open nil, contents == valid prefix, largest single read requested from the file system <= total segment bytes + 4096, bytes allocated during Open <= 8 x segment bytes + 4 MiB; distinct_nontrivial = distinct images; a subset (valueSize 2^20/2^24/2^28, keySize 0/65535) is additionally recovered through the real fs.OS and fs.OSMMap with the same allocation bound",
		Assumptions:   []string{"header alphabet contains the maxima of both length fields; allocation is monotone in the claimed sizes", "allocation measured with runtime.MemStats.TotalAlloc in a worker that runs one case at a time"},
		QuickBudget:   100 * time.Second,
		ThorBudget:    10 * time.Minute,
		Run:           runC19,
		EvalKey:       "images",
		DistinctClass: "image",
	})
	_ = strings.Join
	tailReplay := func(rep map[string]interface{}) (string, error) {
		dirs, err := tailDirs(true)
		if err != nil {
			return "", err
		}
		seg3 := explore.Config{Name: "SEG3", MaxSeg: 512 + 3*40, MinSeg: 1, MinFrag: 1e-9}
		script := []scriptOp{
			{K: []byte("a"), V: shapeVal(1, 20)}, {K: []byte("b"), V: shapeVal(2, 20)}, {K: []byte("ccc"), V: shapeVal(3, 20)},
			{K: []byte("a"), V: shapeVal(4, 20)}, {Del: true, K: []byte("b")}, {K: []byte("d"), V: shapeVal(5, 20)},
			{K: []byte("e"), V: shapeVal(6, 20)},
		}
		if h, err := buildTailDir("H-three-segments", seg3, script, -1); err == nil {
			dirs = append(dirs, h)
		}
		data, err := base64.StdEncoding.DecodeString(fmt.Sprint(rep["data_b64"]))
		if err != nil {
			return "", err
		}
		for _, d := range dirs {
			if d.Name == fmt.Sprint(rep["dir"]) {
				c := explore.NewLocalCtx("C08")
				if fmt.Sprint(rep["kind"]) == "hdr19" {
					return c19Case(c, d, fmt.Sprint(rep["seg"]), data, ""), nil
				}
				return tailOracle(c, d, damage{Desc: fmt.Sprint(rep["damage"]), Seg: fmt.Sprint(rep["seg"]), Data: data, WantRecords: -1}, true), nil
			}
		}
		return "", fmt.Errorf("unknown directory %v", rep["dir"])
	}
	replayers["tail08"] = tailReplay
	replayers["hdr19"] = tailReplay
}
