package main

import (
	"fmt"
	"sort"
	"strings"
	"time"

	"github.com/akrylysov/pogreb/zzverif/explore"
	"github.com/akrylysov/pogreb/zzverif/refmodel"
)

// C10: no data race, panic, fault or deadlock under concurrent use incl. Close; operations that lose
// the race with Close fail or have no effect; no goroutine left after Close.
//
// Deciding step: all interleavings (iterative preemption bounding, unbounded where it completes) of
// every pair of public methods, of every method with Close and a writer, of shared iterators, of
// maintenance tasks, and of the background worker with writers and Close - on simfs under the vsync
// scheduler, with every lock operation a scheduling point and (for methods that call the file system
// outside DB.mu: FileSize, Backup) every file-system call a scheduling point. Every call on an open
// file handle is recorded with the caller's vector clock: two calls on the same handle that touch
// the handle's own state (length/memory mapping: Write, WriteAt, Truncate, Close write it, Slice reads
// it; sequential offset: Seek, Read, Write), one of them writing, from different threads and unordered
// by happens-before are a race. That state is what no FileSystem protects (cf. osMMapFile's data,
// size, mmapSize, offset fields: a Slice concurrent with a growing WriteAt or with Close reads a
// mapping that is being replaced or unmapped). Calls on different handles / the directory are atomic
// on every in-tree FileSystem (fs.Mem since the fix recorded in known_findings.json).
// Complement (sampling, labelled as such): the same thread programs free-running under the Go race
// detector on fs.Mem / fs.OS / fs.OSMMap (c10free.go).

var c10Methods = []explore.Op{
	op(explore.Put, "a"), op(explore.Delete, "a"), op(explore.Get, "a"), op(explore.GetAppend, "b"), op(explore.Has, "a"), op(explore.Count, ""),
	op(explore.Scan, ""), op(explore.Sync, ""), op(explore.Compact, ""), op(explore.Backup, ""), op(explore.FileSize, ""), op(explore.Metrics, ""), op(explore.Close, ""),
}

func fsOutsideLock(o explore.Op) bool {
	return o.Kind == explore.FileSize || o.Kind == explore.Backup
}

func c10Scenarios(thorough bool) []*explore.Scenario {
	var scs []*explore.Scenario
	post := []explore.Op{op(explore.Put, "a"), op(explore.Get, "b"), op(explore.Delete, "b"), op(explore.Has, "a"), op(explore.Count, ""), op(explore.Sync, ""), op(explore.Scan, ""), op(explore.FileSize, ""), op(explore.Compact, ""), op(explore.Backup, ""), op(explore.Metrics, "")}
	mk := func(name, base, cfg string, threads ...explore.ThreadProg) *explore.Scenario {
		sc := &explore.Scenario{Name: name, Base: base, Cfg: cfg, Threads: threads, Bound: -1, TrackRaces: true, QuietPop: true}
		for _, t := range threads {
			for _, o := range t {
				if fsOutsideLock(o) {
					sc.FSYield = true
				}
				if o.Kind == explore.Close {
					sc.PostClose = post
				}
				if o.Kind == explore.IterNext {
					sc.QuietPop = false
				}
			}
		}
		return sc
	}
	// A: all unordered pairs (including a method with itself)
	for i, m1 := range c10Methods {
		for j, m2 := range c10Methods {
			if j < i {
				continue
			}
			scs = append(scs, mk(fmt.Sprintf("P-%s-%s", m1.Kind, m2.Kind), "S2", "ROLL", explore.ThreadProg{m1}, explore.ThreadProg{m2}))
		}
	}
	// B: every method with Close and a writer whose Put rolls the log over
	for _, m := range c10Methods[:12] {
		scs = append(scs, mk(fmt.Sprintf("T-%s-Close-Put", m.Kind), "S2", "ROLL", explore.ThreadProg{m}, explore.ThreadProg{op(explore.Close, "")}, explore.ThreadProg{op(explore.Put, "b")}))
	}
	// C: one iterator shared by two threads, with a writer / with Close
	nx := explore.ThreadProg{op(explore.IterNext, ""), op(explore.IterNext, "")}
	scs = append(scs, mk("I-shared-Put", "S2", "ROLL", nx, nx, explore.ThreadProg{op(explore.Put, "n")}))
	scs = append(scs, mk("I-shared-Close", "S2", "ROLL", nx, nx, explore.ThreadProg{op(explore.Close, "")}))
	scs = append(scs, mk("I-shared-Compact", "S3", "ROLL", nx, nx, explore.ThreadProg{op(explore.Compact, "")}))
	// D: maintenance tasks against each other and a writer
	scs = append(scs, mk("M-Compact-Backup-Put", "S2", "ROLL", explore.ThreadProg{op(explore.Compact, "")}, explore.ThreadProg{op(explore.Backup, "")}, explore.ThreadProg{op(explore.Put, "a")}))
	scs = append(scs, mk("M-Compact-Compact-Delete", "S3", "ROLL", explore.ThreadProg{op(explore.Compact, "")}, explore.ThreadProg{op(explore.Compact, "")}, explore.ThreadProg{op(explore.Delete, "e")}))
	scs = append(scs, mk("M-Backup-Backup", "S2", "ROLL", explore.ThreadProg{op(explore.Backup, "")}, explore.ThreadProg{op(explore.Backup, "")}))
	scs = append(scs, mk("M-FileSize-Compact-Put", "S2", "ROLL", explore.ThreadProg{op(explore.FileSize, "")}, explore.ThreadProg{op(explore.Compact, "")}, explore.ThreadProg{op(explore.Put, "a")}))
	// E: background worker (sync and compaction ticks are scheduler choices, budget 2) with a writer and Close
	for i, ws := range [][]explore.ThreadProg{
		{{op(explore.Put, "a")}, {op(explore.Close, "")}},
		{{op(explore.Put, "a"), op(explore.Delete, "b")}},
		{{op(explore.Close, "")}},
		{{op(explore.Delete, "e"), op(explore.Close, "")}},
		{{op(explore.Get, "a")}, {op(explore.Compact, "")}, {op(explore.Close, "")}},
	} {
		sc := mk(fmt.Sprintf("W-%d", i), "S2", "ROLL", ws...)
		sc.Worker = true
		sc.TickBudget = 2
		scs = append(scs, sc)
	}
	// F: recovery with the background worker configured: the worker must not run while the recovering Open rebuilds the
	// index without the database lock (every file-system call of the recovery is a scheduling point)
	for i, ws := range [][]explore.ThreadProg{{{op(explore.Get, "a")}}, {{op(explore.Put, "a")}, {op(explore.Close, "")}}} {
		sc := mk(fmt.Sprintf("WR-%d", i), "S2", "ROLL", ws...)
		sc.Worker, sc.TickBudget, sc.Unclean, sc.FSYield, sc.Bound = true, 2, true, true, 2
		scs = append(scs, sc)
	}
	// SWM: sync-after-every-write mode (every Put/Delete ends with an fsync of the current segment) next to the tasks
	// that swap, close or remove the current segment (S4: the current segment is the compaction candidate)
	for i, th := range [][]explore.ThreadProg{
		{{op(explore.Put, "a")}, {op(explore.Compact, "")}},
		{{op(explore.Delete, "e")}, {op(explore.Compact, "")}},
		{{op(explore.Put, "a"), op(explore.Put, "b")}, {op(explore.Put, "e"), op(explore.Put, "n")}},
		{{op(explore.Put, "a")}, {op(explore.Sync, "")}, {op(explore.Compact, "")}},
	} {
		sc := mk(fmt.Sprintf("SWM-%d", i), "S4", "ROLL+SW", th...)
		scs = append(scs, sc)
	}
	// RFS: readers (and one writer) on the repository's own file systems, every file-system call a scheduling point
	// (before it, and after calls that hand bytes to the caller): what the FileSystem documents as safe for
	// concurrent use - Slice/ReadAt under the shared lock - is exercised in every interleaving on the real thing
	for _, kind := range []string{"os", "osmmap"} { // (fs.Mem: in C17's differential; its ReadDir order makes traces of Open irreproducible)
		g := func(k string) explore.Op { return op(explore.Get, k) }
		progs := map[string][]explore.ThreadProg{
			// base CH: h0 and h1 live in the head bucket, o0 in its overflow bucket, all records in one segment file
			"RR": {{g("h0")}, {g("h1")}},
			"RO": {{g("h0")}, {g("o0")}},
			"RA": {{op(explore.GetAppend, "h0")}, {op(explore.Has, "o0"), g("h1")}},
			"RW": {{g("h0"), g("h1")}, {op(explore.Put, "h1")}},
		}
		for _, n := range []string{"RR", "RO", "RA", "RW"} {
			sc := &explore.Scenario{Name: "RFS-" + n + "-" + kind, Base: "CH", Cfg: "BIGC", Threads: progs[n], Bound: 3, WrapFS: kind}
			if thorough {
				sc.Bound = -1
			}
			scs = append(scs, sc)
		}
	}
	if thorough {
		// two-call threads for the pairs that involve Close or maintenance
		for _, m1 := range c10Methods[:12] {
			for _, m2 := range []explore.Op{op(explore.Close, ""), op(explore.Compact, ""), op(explore.Backup, "")} {
				scs = append(scs, mk(fmt.Sprintf("Q-%s+Put-%s", m1.Kind, m2.Kind), "S3", "ROLL", explore.ThreadProg{m1, op(explore.Put, "d")}, explore.ThreadProg{m2}))
			}
		}
	}
	return scs
}

func c10Check(c *explore.Ctx, base *explore.Base, sc *explore.Scenario) func(r *explore.ConcRun) (string, string) {
	return func(r *explore.ConcRun) (string, string) {
		x := r.X
		if len(x.Races) > 0 {
			ra := x.Races[0]
			return "race:" + ra.Key(), "unsynchronised calls on one open file handle (a data race on the handle's length/mapping/offset state, e.g. osMMapFile.data/size): " + ra.String()
		}
		if len(x.LiveThreads) > 0 {
			return "live-goroutine", fmt.Sprintf("goroutines started by the database still running after Close returned: %v", x.LiveThreads)
		}
		// when did Close start / return?
		closeCall, closeRet := 1<<30, 1<<30
		closeErr := ""
		nClose := 0
		for _, e := range r.Events {
			if e.Op.Kind == explore.Close {
				nClose++
				if e.Call < closeCall {
					closeCall, closeRet, closeErr = e.Call, e.Ret, e.Err
				}
			}
		}
		if nClose == 1 && closeErr != "" {
			return "close-error", "the only Close call returned error: " + closeErr
		}
		if r.CloseErr != "" {
			return "close-error", "Close at quiescence returned error: " + r.CloseErr
		}
		_ = closeRet
		// operations that completed before Close was called must have succeeded
		for _, e := range r.Events {
			if e.Err == "" || e.Ret > closeCall {
				continue
			}
			if e.Op.Kind == explore.Compact && (compactRefused(r, e) || sc.Worker) {
				continue
			}
			if e.Op.Kind == explore.FileSize {
				// FileSize walks the directory without the database lock: a segment that compaction removes
				// between ReadDir and Info makes it return an error. No property speaks about that (it is
				// neither a race on handle state, a panic, a fault nor a deadlock); recorded, not alarmed.
				c.Outcome("observation_FileSize_error_under_concurrency", e.Err)
				continue
			}
			return "op-error", fmt.Sprintf("%s in thread %d returned error although Close had not been called: %s", e.Op, e.Thread, e.Err)
		}
		if r.FinalMsg != "" {
			return "final", "at quiescence: " + r.FinalMsg
		}
		// history: operations that returned before Close was called are ordinary; writes that overlap or
		// follow Close may or may not have taken effect (an error or no effect are both admitted); reads
		// that overlap or follow Close are not constrained by the property
		var ops []refmodel.LinOp
		for _, o := range r.LinOps(base.Keys) {
			late := o.Ret > closeCall
			if late {
				if o.Kind != "Put" && o.Kind != "Delete" {
					continue
				}
				o.Maybe = true
			}
			ops = append(ops, o)
		}
		init := map[string]string{}
		for k, v := range base.Model {
			init[k] = v
		}
		ok, finals := refmodel.Linearize(init, ops)
		if !ok {
			return "not-linearizable", fmt.Sprintf("history is not linearizable: %v", ops)
		}
		if sc.WrapFS != "" && sc.WrapFS != "sim" {
			// the files are not on simfs: the contents read at quiescence stand in for the reopened ones
			r.Reopened = r.Final
		} else {
			r.ReopenAfter()
		}
		if r.ReopenMsg != "" {
			return "reopen", r.ReopenMsg
		}
		match := false
		for _, f := range finals {
			if explore.Model(f).Equal(r.Reopened) {
				match = true
			}
		}
		if !match {
			var d []string
			for _, f := range finals {
				d = append(d, explore.Model(f).Diff(r.Reopened, r.Sess.KeyName))
			}
			sort.Strings(d)
			return "contents-after-reopen", fmt.Sprintf("contents after the scenario and a reopen match no admissible outcome of %v: %s", ops, strings.Join(d, " | "))
		}
		return "", ""
	}
}

func runC10(c *explore.Ctx) {
	runScenarioSet(c, c10Scenarios(c.Thorough()), func(base *explore.Base, sc *explore.Scenario) func(r *explore.ConcRun) (string, string) {
		return c10Check(c, base, sc)
	})
	if c.Shard == 0 && c.NViolations() == 0 {
		c10Free(c)
	}
}

func init() {
	explore.Register(&explore.CheckInfo{
		Prop:  "C10",
		Level: "model_checking",
		Rule: "every unordered pair of the 13 public methods (one call per thread), every method with Close and a writer that rolls the log over, shared iterators with a writer/Close/Compact, maintenance tasks against each other, and the background worker (ticks are scheduler choices, budget 2) with writers and Close, from 3-/4-segment bases under ROLL: ALL interleavings at lock-operation granularity, and at file-system-call granularity when a thread calls the file system outside DB.mu (FileSize, Backup); " +
			"oracles per execution: no panic, no deadlock, no livelock, no happens-before race between calls that touch the state of one open file handle (length/mapping: Write/WriteAt/Truncate/Close vs Slice; offset: Seek/Read/Write) - the file-system-level footprint of a data race or use-after-unmap, no goroutine created by the database alive after Close returned, a single Close returns nil, operations finished before Close succeed and are linearizable, operations that overlap/follow Close error or leave the reopened contents unaffected; after Close 11 further calls are made sequentially (use after Close: error or no effect, never a panic). " +
			"states = distinct outcomes. Complement (sampling, not part of the verdict's coverage claim): the same programs free-running under the Go race detector on fs.Mem/fs.OS/fs.OSMMap",
		Assumptions: []string{"unsynchronised access to in-memory fields of pogreb is only visible to the free-running race-detector complement (sampling); the deciding exhaustive step sees synchronisation operations and file-system calls",
			"scenarios that do not finish within their time slice report the completed preemption bound"},
		QuickBudget:   110 * time.Second,
		ASLimitMB:     1 << 20,
		ThorBudget:    30 * time.Minute,
		Run:           runC10,
		EvalKey:       "executions",
		DistinctClass: "outcome",
		StatesKey:     "distinct:outcome",
		TransKey:      "transitions",
		TracesKey:     "executions",
	})
}
