package main

import (
	"bytes"
	"fmt"
	"os"
	"os/exec"
	"path/filepath"
	"regexp"
	"runtime/debug"
	"strings"
	"sync"
	"time"

	"github.com/akrylysov/pogreb"
	"github.com/akrylysov/pogreb/fs"
	"github.com/akrylysov/pogreb/zzverif/explore"
	"github.com/akrylysov/pogreb/zzverif/simfs"
)

// Free-running complement of C10: the thread programs of the C10 scenarios run as real goroutines
// (vsync in pass-through mode = the real sync primitives) in a binary built with -race, on
// fs.Mem, fs.OS and fs.OSMMap. A race report, a panic or a memory fault (SetPanicOnFault) is a
// violation - the detector has no false positives. Silence is sampling and claims no coverage.

// realFS returns the file system and the database path for one free run.
func realFS(kind, scratch string, n int) (fs.FileSystem, string) {
	switch kind {
	case "mem":
		return fs.Mem, fmt.Sprintf("free-%d-%d", os.Getpid(), n)
	case "os":
		return fs.OS, filepath.Join(scratch, fmt.Sprintf("os-%d", n))
	default:
		return fs.OSMMap, filepath.Join(scratch, fmt.Sprintf("mm-%d", n))
	}
}

// copyImage writes the files of the base image's database directory through the target file system.
func copyImage(img *simfs.FS, fsys fs.FileSystem, path string) error {
	if err := fsys.MkdirAll(path, 0755); err != nil {
		return err
	}
	for _, n := range img.NamesIn(explore.DBPath) {
		f, err := fsys.OpenFile(filepath.Join(path, n), os.O_CREATE|os.O_RDWR|os.O_TRUNC, 0640)
		if err != nil {
			return err
		}
		if _, err := f.Write(img.Bytes(explore.DBPath + "/" + n)); err != nil {
			return err
		}
		if err := f.Close(); err != nil {
			return err
		}
	}
	return nil
}

func freeOp(db *pogreb.DB, it *pogreb.ItemIterator, keys map[string][]byte, o explore.Op, thread, idx int, bdir string) {
	switch o.Kind {
	case explore.Put:
		_ = db.Put(append([]byte(nil), keys[o.Key]...), []byte(fmt.Sprintf("%d%03d", thread, idx)))
	case explore.Delete:
		_ = db.Delete(keys[o.Key])
	case explore.Get:
		v, _ := db.Get(keys[o.Key])
		for i := range v {
			v[i]++ // the slice is ours
		}
	case explore.GetAppend:
		_, _ = db.GetAppend(keys[o.Key], make([]byte, 3, 32))
	case explore.Has:
		_, _ = db.Has(keys[o.Key])
	case explore.Count:
		_ = db.Count()
	case explore.Scan:
		si := db.Items()
		for n := 0; n < 10000; n++ {
			k, v, err := si.Next()
			if err != nil {
				break
			}
			for i := range k {
				k[i]++
			}
			for i := range v {
				v[i]++
			}
		}
	case explore.IterNext:
		_, _, _ = it.Next()
	case explore.Compact:
		_, _ = db.Compact()
	case explore.Sync:
		_ = db.Sync()
	case explore.Backup:
		_ = db.Backup(fmt.Sprintf("%s-bak-%d-%d", bdir, thread, idx))
	case explore.FileSize:
		_, _ = db.FileSize()
	case explore.Metrics:
		m := db.Metrics()
		_ = m.Puts.Value() + m.Gets.Value() + m.Dels.Value() + m.HashCollisions.Value()
	case explore.Close:
		_ = db.Close()
	}
}

// freeMain is the body of `pogverif free <fs> <reps> <seed>` (run from the -race binary).
func freeMain(kind string, reps int, seed int64) int {
	scratch := os.Getenv("POGVERIF_FREE_SCRATCH") // made and removed by the parent (this process may be killed by its watchdog)
	if scratch == "" {
		var err error
		scratch, err = os.MkdirTemp("/dev/shm", "pogverif-free-")
		if err != nil {
			fmt.Println("FREE-SKIP: no scratch directory:", err)
			return 0
		}
		defer os.RemoveAll(scratch)
	}
	scs := c10Scenarios(false)
	n := 0
	problems := 0
	for rep := 0; rep < reps; rep++ {
		for si := range scs {
			sc := scs[(si+int(seed)+rep*7)%len(scs)]
			base, err := explore.GetBase(sc.Base, cfgPL(sc.Cfg), 0)
			if err != nil {
				fmt.Println("FREE-SKIP:", err)
				return 0
			}
			explore.PinSeed(0)
			n++
			fsys, path := realFS(kind, scratch, n)
			if err := copyImage(base.Image, fsys, path); err != nil {
				fmt.Println("FREE-SKIP: copying the base image:", err)
				return 0
			}
			opts := base.Cfg.Options(fsys)
			if sc.Worker {
				opts.BackgroundSyncInterval = time.Millisecond
				opts.BackgroundCompactionInterval = 2 * time.Millisecond
			}
			db, err := pogreb.Open(path, opts)
			if err != nil {
				fmt.Printf("FREE-PROBLEM scenario=%s fs=%s Open: %v\n", sc.Name, kind, err)
				problems++
				continue
			}
			it := db.Items()
			var wg sync.WaitGroup
			var mu sync.Mutex
			closed := false
			order := make([]int, len(sc.Threads))
			for i := range order {
				order[i] = (i + rep + int(seed)) % len(sc.Threads)
			}
			for _, ti := range order {
				ti := ti
				prog := sc.Threads[ti]
				wg.Add(1)
				go func() {
					defer wg.Done()
					debug.SetPanicOnFault(true)
					defer func() {
						if r := recover(); r != nil {
							mu.Lock()
							problems++
							fmt.Printf("FREE-PANIC scenario=%s fs=%s thread=%d: %v\n%s\n", sc.Name, kind, ti+1, r, firstStack(debug.Stack()))
							mu.Unlock()
						}
					}()
					for i, o := range prog {
						if o.Kind == explore.Close {
							mu.Lock()
							closed = true
							mu.Unlock()
						}
						freeOp(db, it, base.Keys, o, ti+1, i, path)
					}
				}()
			}
			wg.Wait()
			func() {
				debug.SetPanicOnFault(true)
				defer func() {
					if r := recover(); r != nil {
						problems++
						fmt.Printf("FREE-PANIC scenario=%s fs=%s after-close: %v\n%s\n", sc.Name, kind, r, firstStack(debug.Stack()))
					}
				}()
				if !closed {
					if err := db.Close(); err != nil {
						fmt.Printf("FREE-PROBLEM scenario=%s fs=%s Close: %v\n", sc.Name, kind, err)
						problems++
					}
				}
				for i, o := range sc.PostClose {
					freeOp(db, it, base.Keys, o, 0, 900+i, path)
				}
			}()
		}
	}
	fmt.Printf("FREE-DONE fs=%s runs=%d problems=%d\n", kind, n, problems)
	return 0
}

func firstStack(b []byte) string {
	l := strings.Split(string(b), "\n")
	if len(l) > 24 {
		l = l[:24]
	}
	return strings.Join(l, "\n")
}

var raceFrame = regexp.MustCompile(`(?m)^\s+(github\.com/akrylysov/pogreb[^\s(]*)\(`)

// c10Free runs the race binary on the three file systems and turns reports into violations.
func c10Free(c *explore.Ctx) {
	bin := filepath.Join(explore.VerifDir, "bin", "pogverif-race")
	if _, err := os.Stat(bin); err != nil {
		c.Note("free_running_race_pass", "skipped: "+bin+" not built")
		return
	}
	reps := 2
	if c.Thorough() {
		reps = 12
	}
	total := 0
	for _, kind := range []string{"mem", "os", "osmmap"} {
		left := time.Until(c.Deadline)
		if left < 15*time.Second {
			c.Note("free_running_race_pass_"+kind, "skipped: time budget used up")
			continue
		}
		cmd := exec.Command(bin, "free", kind, fmt.Sprint(reps), fmt.Sprint(c.Seed))
		cmd.Env = append(os.Environ(), "GORACE=halt_on_error=0 history_size=3", "GOMAXPROCS=8")
		if scratch, err := os.MkdirTemp("/dev/shm", "pogverif-free-"); err == nil {
			cmd.Env = append(cmd.Env, "POGVERIF_FREE_SCRATCH="+scratch)
			defer os.RemoveAll(scratch)
		}
		var out bytes.Buffer
		cmd.Stdout = &out
		cmd.Stderr = &out
		done := make(chan error, 1)
		if err := cmd.Start(); err != nil {
			c.Note("free_running_race_pass_"+kind, "skipped: "+err.Error())
			continue
		}
		go func() { done <- cmd.Wait() }()
		var werr error
		select {
		case werr = <-done:
		case <-time.After(left - 10*time.Second):
			_ = cmd.Process.Kill()
			<-done
			c.Note("free_running_race_pass_"+kind, "watchdog ended the pass (a hang is only reported when it reproduces as a deadlock under the scheduler)")
			continue
		}
		s := out.String()
		runs := 0
		if m := regexp.MustCompile(`FREE-DONE fs=\w+ runs=(\d+)`).FindStringSubmatch(s); m != nil {
			fmt.Sscan(m[1], &runs)
		}
		total += runs
		c.Add("free_runs_"+kind, int64(runs))
		if i := strings.Index(s, "WARNING: DATA RACE"); i >= 0 {
			rep := s[i:]
			if j := strings.Index(rep, "=================="); j > 0 {
				rep = rep[:j]
			}
			var frames []string
			for _, m := range raceFrame.FindAllStringSubmatch(rep, -1) {
				f := m[1]
				if strings.Contains(f, "zzverif") {
					continue
				}
				dup := false
				for _, x := range frames {
					dup = dup || x == f
				}
				if !dup {
					frames = append(frames, f)
				}
				if len(frames) == 4 {
					break
				}
			}
			if len(rep) > 3000 {
				rep = rep[:3000]
			}
			c.Violation(explore.Violation{Key: "go-race fs=" + kind + " " + strings.Join(frames, " | "), What: "Go race detector report in the free-running pass on fs=" + kind + ":\n" + rep, Size: 5000,
				Replay: map[string]interface{}{"kind": "free10", "fs": kind, "reps": reps, "report": rep}})
			continue
		}
		if i := strings.Index(s, "FREE-PANIC"); i >= 0 {
			rep := s[i:]
			if len(rep) > 3000 {
				rep = rep[:3000]
			}
			first := strings.SplitN(rep, "\n", 2)[0]
			c.Violation(explore.Violation{Key: "free-panic " + first, What: "panic or memory fault in the free-running pass: " + rep, Size: 5000,
				Replay: map[string]interface{}{"kind": "free10", "fs": kind, "reps": reps, "report": rep}})
			continue
		}
		if werr != nil && !strings.Contains(s, "FREE-DONE") {
			tail := s
			if len(tail) > 2500 {
				tail = tail[len(tail)-2500:]
			}
			c.Violation(explore.Violation{Key: "free-crash fs=" + kind, What: "the free-running pass crashed on fs=" + kind + " (" + werr.Error() + "): " + tail, Size: 6000,
				Replay: map[string]interface{}{"kind": "free10", "fs": kind, "reps": reps, "report": tail}})
		}
	}
	c.Note("free_running_race_pass", fmt.Sprintf("%d scenario runs under the Go race detector on fs.Mem/fs.OS/fs.OSMMap (sampling; complements, does not extend, the exhaustive coverage)", total))
}
