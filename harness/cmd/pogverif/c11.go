package main

import (
	"fmt"
	"sort"
	"time"

	"github.com/akrylysov/pogreb"
	"github.com/akrylysov/pogreb/zzverif/explore"
)

// C11: iteration is complete and truthful.
//  (q) quiescent: every state of the C01 word space (depth as reported): exactly-once scan, sticky
//      ErrIterationDone, an iterator created before a write and drained after it, two iterators
//      drained one after the other;
//  (c) concurrent: thread 1 scans to completion, thread 2 (and 3) run every 1-/2-letter writer
//      program over a per-base menu (split triggers, deletes that shift slots, overwrites,
//      Compact): ALL interleavings; every returned pair must have been put before its Next
//      returned, every key untouched during the scan must be returned with its value;
//  (s) one iterator shared by two threads over a quiescent database: the union of what both
//      threads received is exactly the contents.

// writesTo returns the completed write events of the run per key (role -> events sorted by call time).
func writesTo(r *explore.ConcRun, keys map[string][]byte) map[string][]explore.Event {
	m := map[string][]explore.Event{}
	for _, e := range r.Events {
		if e.Op.Kind == explore.Put || e.Op.Kind == explore.Delete {
			k := string(keys[e.Op.Key])
			m[k] = append(m[k], e)
		}
	}
	for k := range m {
		evs := m[k]
		sort.Slice(evs, func(i, j int) bool { return evs[i].Call < evs[j].Call })
	}
	return m
}

// scanOracle checks one scan event against the property's two concurrent clauses.
func scanOracle(r *explore.ConcRun, base *explore.Base, e explore.Event) (string, string) {
	w := writesTo(r, base.Keys)
	name := r.Sess.KeyName
	// truthful: the value was put for the key (by the base or by a Put called before this Next returned)
	for i, p := range e.Pairs {
		k, v := p[0], p[1]
		if bv, ok := base.Model[k]; ok && bv == v {
			continue
		}
		ok := false
		for _, we := range w[k] {
			if we.Op.Kind == explore.Put && we.Val == v && we.Call < e.PairT[i] {
				ok = true
				break
			}
		}
		if !ok {
			return "untruthful", fmt.Sprintf("scan returned (%s,%q) but that value was never put for the key before the Next call returned", name(k), v)
		}
	}
	// complete for untouched keys: no write to the key overlaps the scan
	got := map[string]map[string]bool{}
	for _, p := range e.Pairs {
		if got[p[0]] == nil {
			got[p[0]] = map[string]bool{}
		}
		got[p[0]][p[1]] = true
	}
	all := map[string]bool{}
	for k := range base.Model {
		all[k] = true
	}
	for k := range w {
		all[k] = true
	}
	var keys []string
	for k := range all {
		keys = append(keys, k)
	}
	sort.Strings(keys)
	for _, k := range keys {
		val, present := base.Model[k]
		stable := true
		var before []explore.Event
		for _, we := range w[k] {
			switch {
			case we.Ret < e.Call:
				before = append(before, we)
			case we.Call > e.Ret:
			default:
				stable = false
			}
		}
		if !stable {
			continue
		}
		ambiguous := false
		for i := 1; i < len(before); i++ {
			if before[i-1].Ret > before[i].Call {
				ambiguous = true
			}
		}
		if ambiguous {
			continue
		}
		if n := len(before); n > 0 {
			last := before[n-1]
			if last.Err != "" {
				continue
			}
			if last.Op.Kind == explore.Put {
				val, present = last.Val, true
			} else {
				present = false
			}
		}
		if present && !got[k][val] {
			return "incomplete", fmt.Sprintf("key %s held %q for the whole duration of the scan but the scan did not return it (scan returned %d pairs)", name(k), val, len(e.Pairs))
		}
	}
	return "", ""
}

func c11Check(base *explore.Base, sc *explore.Scenario) func(r *explore.ConcRun) (string, string) {
	lin := linCheck(base)
	shared := len(sc.Name) > 2 && sc.Name[:2] == "SH"
	return func(r *explore.ConcRun) (string, string) {
		if cl, msg := lin(r); msg != "" {
			return cl, msg
		}
		if shared {
			got := explore.Model{}
			done := 0
			for _, e := range r.Events {
				if e.Op.Kind != explore.IterNext {
					continue
				}
				done += e.N
				for _, p := range e.Pairs {
					if _, dup := got[p[0]]; dup {
						return "shared-dup", fmt.Sprintf("iterator shared by two threads over a quiescent database returned key %s twice", r.Sess.KeyName(p[0]))
					}
					got[p[0]] = p[1]
				}
			}
			if !base.Model.Equal(got) {
				return "shared-incomplete", "union of the pairs two threads received from one shared iterator differs from the contents: " + base.Model.Diff(got, r.Sess.KeyName)
			}
			if done == 0 {
				return "shared-notdone", "shared iterator never reported ErrIterationDone although more Next calls than keys were made"
			}
			return "", ""
		}
		for _, e := range r.Events {
			if e.Op.Kind != explore.Scan {
				continue
			}
			if cl, msg := scanOracle(r, base, e); msg != "" {
				return cl, msg
			}
		}
		return "", ""
	}
}

func c11Scenarios(thorough bool) []*explore.Scenario {
	var scs []*explore.Scenario
	type menu struct {
		base, cfg string
		ops       []explore.Op
	}
	menus := []menu{
		{"SP", "BIGC", []explore.Op{op(explore.Put, "n1"), op(explore.Put, "n2"), op(explore.Delete, "h0"), op(explore.Put, "m2"), op(explore.Delete, "o0"), op(explore.Put, "n3"), op(explore.Put, "h0")}},
		{"MS", "BIGC", []explore.Op{op(explore.Put, "n3"), op(explore.Put, "n5"), op(explore.Delete, "mv"), op(explore.Put, "st"), op(explore.Delete, "b4"), op(explore.Put, "n1")}},
		{"SC", "BIGC", []explore.Op{op(explore.Put, "nA"), op(explore.Put, "nB"), op(explore.Delete, "ov"), op(explore.Put, "nC"), op(explore.Put, "h0")}},
		{"ML", "BIGC", []explore.Op{op(explore.Put, "n0"), op(explore.Delete, "a0"), op(explore.Put, "co"), op(explore.Put, "n2"), op(explore.Delete, "ao"), op(explore.Put, "b1")}},
		{"S2", "ROLL", []explore.Op{op(explore.Compact, ""), op(explore.Put, "e"), op(explore.Delete, "a"), op(explore.Put, "n"), op(explore.Put, "d")}},
		{"CH", "BIGC", []explore.Op{op(explore.Delete, "h0"), op(explore.Put, "x"), op(explore.Put, "o0"), op(explore.Delete, "o1"), op(explore.Put, "y")}},
	}
	scan := explore.ThreadProg{op(explore.Scan, "")}
	for _, m := range menus {
		for i, w := range m.ops {
			scs = append(scs, &explore.Scenario{Name: fmt.Sprintf("S1-%s-%d", m.base, i), Base: m.base, Cfg: m.cfg, Threads: []explore.ThreadProg{scan, {w}}, Bound: -1, QuietPop: true})
		}
	}
	for _, m := range menus {
		for i, w1 := range m.ops {
			for j, w2 := range m.ops {
				if i == j && w1.Kind != explore.Put {
					continue
				}
				// quick: every ordered pair on the split-heavy bases, a quarter of the pairs elsewhere
				if !thorough && (i*len(m.ops)+j)%4 != 1 && m.base != "SP" && m.base != "SC" {
					continue
				}
				scs = append(scs, &explore.Scenario{Name: fmt.Sprintf("S2-%s-%d%d", m.base, i, j), Base: m.base, Cfg: m.cfg, Threads: []explore.ThreadProg{scan, {w1, w2}}, Bound: -1, QuietPop: true})
			}
		}
	}
	// two writers next to the scan (smaller bases only: the interleaving space is the product)
	for _, m := range menus[4:5] {
		for i, w1 := range m.ops {
			for j, w2 := range m.ops {
				if j <= i || (!thorough && (i+j)%2 == 0) {
					continue
				}
				scs = append(scs, &explore.Scenario{Name: fmt.Sprintf("S3-%s-%d%d", m.base, i, j), Base: m.base, Cfg: m.cfg, Threads: []explore.ThreadProg{scan, {w1}, {w2}}, Bound: -1, QuietPop: true})
			}
		}
	}
	// a scan next to a reader on the repository's plain OS file system, every file-system call a scheduling point (what
	// Slice hands to the scanning thread must still be the scan's when it looks at it; nobody modifies the database)
	for _, kind := range []string{"os", "osmmap"} {
		scs = append(scs, &explore.Scenario{Name: "RFS-scan-" + kind, Base: "CH", Cfg: "BIGC", Threads: []explore.ThreadProg{scan, {op(explore.Get, "h1"), op(explore.Has, "o0")}}, Bound: 1, WrapFS: kind})
	}
	// one iterator shared by two threads, quiescent database (S2 has 3 live keys, E+puts none: use S2 and S3)
	for _, b := range []string{"S2", "S3"} {
		nx := explore.ThreadProg{op(explore.IterNext, ""), op(explore.IterNext, ""), op(explore.IterNext, ""), op(explore.IterNext, "")}
		scs = append(scs, &explore.Scenario{Name: "SH-" + b, Base: b, Cfg: "ROLL", Threads: []explore.ThreadProg{nx, nx}, Bound: -1})
	}
	return scs
}

// quiescent part: words of length <= d over the C01 alphabet; after every step the scan oracles.
func c11Quiescent(c *explore.Ctx) {
	type sp struct {
		base, cfg string
		depth     int
	}
	spaces := []sp{{"E", "BIGC", 2}, {"CH", "BIGC", 2}, {"CC", "BIGC", 2}, {"SP", "BIGC", 2}, {"ML", "BIGC", 2}, {"HO", "BIGC", 2}, {"SP", "ROLL", 2}, {"LCS", "BIGC", 2}, {"LCM", "BIGC", 2}, {"FL3", "BIGC", 3}}
	if c.Thorough() {
		spaces = []sp{{"E", "BIGC", 3}, {"CH", "BIGC", 3}, {"CC", "BIGC", 3}, {"SP", "BIGC", 3}, {"ML", "BIGC", 3}, {"HO", "BIGC", 3}, {"SP", "ROLL", 3}, {"CH", "ROLL", 3}, {"E", "ROLL1", 3}, {"LCS", "BIGC", 3}, {"LCM", "BIGC", 3}, {"FL", "BIGC", 3}, {"FL2", "BIGC", 3}, {"FL3", "BIGC", 4}}
	}
	for _, s := range spaces {
		if c.Expired() || c.NViolations() > 0 {
			return
		}
		base, err := explore.GetBase(s.base, cfgByName(s.cfg), 0)
		if err != nil {
			c.HarnessError("%v", err)
		}
		explore.PinSeed(0)
		letters := explore.Letters(base.Alpha, explore.Compact)
		if s.base == "FL" || s.base == "FL2" || s.base == "FL3" {
			// free-list bases: with clean restarts (the free list is the one piece of index state that a scan depends on
			// and that only a restart reloads)
			letters = explore.Letters(base.Alpha, explore.Compact, explore.Reopen)
		}
		s := s
		enumWords(c, letters, s.depth, func(word []explore.Op, checkFrom int) bool {
			if c.Expired() {
				return false
			}
			if v := c11Word(c, base, s.base, s.cfg, word, checkFrom); v != nil {
				return !c.Violation(*v)
			}
			return true
		})
	}
}

func drain(it *pogreb.ItemIterator) (explore.Model, string) {
	m := explore.Model{}
	for n := 0; ; n++ {
		k, v, err := it.Next()
		if err == pogreb.ErrIterationDone {
			break
		}
		if err != nil {
			return nil, "Next: " + err.Error()
		}
		if _, dup := m[string(k)]; dup {
			return nil, fmt.Sprintf("scan of a quiescent database returned key %x twice", k)
		}
		m[string(k)] = string(v)
		if n > 100000 {
			return nil, "scan does not terminate"
		}
	}
	for i := 0; i < 3; i++ {
		if _, _, err := it.Next(); err != pogreb.ErrIterationDone {
			return nil, fmt.Sprintf("Next after the end of the scan returned %v, want ErrIterationDone", err)
		}
	}
	return m, ""
}

func c11Word(c *explore.Ctx, base *explore.Base, bname, cfg string, word []explore.Op, checkFrom int) *explore.Violation {
	s := base.NewSess()
	mk := func(w []explore.Op, msg string) *explore.Violation {
		return &explore.Violation{
			Key:    fmt.Sprintf("quiescent base=%s cfg=%s word=%s", bname, cfg, explore.WordString(w)),
			What:   fmt.Sprintf("after [%s] from base %s/%s: %s", explore.WordString(w), bname, cfg, msg),
			Size:   len(w),
			Replay: map[string]interface{}{"kind": "word11", "base": bname, "cfg": cfg, "seed": 0, "word": opsJSON(w), "observed": msg},
		}
	}
	if err := s.OpenDB(); err != nil {
		return mk(nil, "Open: "+err.Error())
	}
	defer func() {
		if s.DB != nil {
			_ = s.DB.Close()
		}
	}()
	c.Add("executions", 1)
	c.Add("quiescent_words", 1)
	for i, o := range word {
		early := s.DB.Items() // created before the write, drained after it
		_ = s.Apply(o)
		if o.Kind == explore.Reopen {
			early = s.DB.Items() // (an iterator does not outlive its database)
		}
		c.Add("transitions", 1)
		if i+1 < checkFrom {
			continue
		}
		c.Distinct("outcome", explore.Hash64("q", bname, cfg, s.FS.Hash()))
		c.Add("quiescent_scans", 3)
		w := word[:i+1]
		it1 := s.DB.Items()
		it2 := s.DB.Items()
		m2, msg := drain(it2)
		if msg != "" {
			return mk(w, msg)
		}
		m1, msg := drain(it1)
		if msg != "" {
			return mk(w, msg)
		}
		me, msg := drain(early)
		if msg != "" {
			return mk(w, msg)
		}
		for _, m := range []explore.Model{m1, m2, me} {
			if !s.Model.Equal(m) {
				return mk(w, "scan of the quiescent database differs from the contents: "+s.Model.Diff(m, s.KeyName))
			}
		}
	}
	return nil
}

func runC11(c *explore.Ctx) {
	// a third of the budget for the quiescent part at most; it is small
	c11Quiescent(c)
	if c.Expired() || c.NViolations() > 0 {
		return
	}
	runScenarioSet(c, c11Scenarios(c.Thorough()), func(base *explore.Base, sc *explore.Scenario) func(r *explore.ConcRun) (string, string) {
		return c11Check(base, sc)
	})
}

func init() {
	explore.Register(&explore.CheckInfo{
		Prop:  "C11",
		Level: "model_checking",
		Rule: "quiescent: every word of length <= d over the C01 alphabet from bases E/CH/CC/SP/ML/HO; after every step three scans (two iterators drained one after the other, one iterator created before the write) must each return every live key exactly once with its value and then ErrIterationDone three times. " +
			"concurrent: thread 1 scans to completion, thread 2 (and 3) run every 1-/2-letter program over a per-base menu (split trigger, delete that shifts slots, overwrite, Compact) on bases SP (next insert splits a chained bucket), ML (mid-level split pointer), CH (33-key chain), S2 (3 segments, ROLL): ALL interleavings at lock granularity; " +
			"oracles: every pair was put before its Next returned; every key untouched during the scan is returned with its value; scan terminates and ErrIterationDone is sticky; writer ops linearizable; one iterator shared by two threads yields exactly the contents. states = distinct outcomes (scan results + final contents) + distinct quiescent images",
		Assumptions:   []string{"scheduling points at sync operations (see C07)", "writer programs <= 2 ops, <= 2 writer threads"},
		QuickBudget:   100 * time.Second,
		ASLimitMB:     1 << 20, // fs.OSMMap reserves a gigabyte of address space per open file
		ThorBudget:    25 * time.Minute,
		Run:           runC11,
		EvalKey:       "executions",
		DistinctClass: "outcome",
		StatesKey:     "distinct:outcome",
		TransKey:      "transitions",
		TracesKey:     "executions",
	})
	replayers["word11"] = func(rep map[string]interface{}) (string, error) {
		word, err := parseWord(rep["word"])
		if err != nil {
			return "", err
		}
		base, err := explore.GetBase(fmt.Sprint(rep["base"]), cfgByName(fmt.Sprint(rep["cfg"])), 0)
		if err != nil {
			return "", err
		}
		explore.PinSeed(0)
		c := explore.NewLocalCtx("C11")
		if v := c11Word(c, base, fmt.Sprint(rep["base"]), fmt.Sprint(rep["cfg"]), word, 1); v != nil {
			return v.What, nil
		}
		return "", nil
	}
}
