package main

import (
	"fmt"
	"sort"
	"strings"
	"time"

	"github.com/akrylysov/pogreb/zzverif/explore"
	"github.com/akrylysov/pogreb/zzverif/simfs"
)

// C12: Backup is a consistent point-in-time copy. Thread 1 runs Backup, the other threads run writer
// programs; every simfs call on a segment file or the directory table is a scheduling point, so the
// copy loop (which holds no database lock) interleaves with the writers at file-system-call
// granularity. After the threads joined the backup directory is opened and must hold exactly the
// contents after a prefix of the writers' critical sections that lies between Backup's call and return.

func c12Scenarios(thorough bool) []*explore.Scenario {
	var scs []*explore.Scenario
	L := []explore.Op{op(explore.Put, "a"), op(explore.Put, "b"), op(explore.Delete, "a"), op(explore.Put, "c")}
	bk := explore.ThreadProg{op(explore.Backup, "")}
	type bc struct{ b, c string }
	bcs := []bc{{"E", "ROLL1"}, {"E", "ROLL"}, {"S2", "ROLL"}, {"S2", "ROLL1"}, {"E", "BIGC"}}
	for _, x := range bcs {
		for i, w := range L {
			scs = append(scs, &explore.Scenario{Name: fmt.Sprintf("B1-%s-%s-%d", x.b, x.c, i), Base: x.b, Cfg: x.c, Threads: []explore.ThreadProg{bk, {w}}, Bound: -1, FSYield: true, YieldSeg: true, Record: true})
		}
	}
	for _, x := range bcs {
		for i, w1 := range L {
			for j, w2 := range L {
				if !thorough && (i*4+j)%3 != 0 {
					continue
				}
				// once at the granularity of every file-system call on segment files (large space: completed up to a preemption
				// bound), once at directory-operation granularity (completes)
				scs = append(scs, &explore.Scenario{Name: fmt.Sprintf("B2-%s-%s-%d%d", x.b, x.c, i, j), Base: x.b, Cfg: x.c, Threads: []explore.ThreadProg{bk, {w1, w2}}, Bound: -1, FSYield: true, YieldSeg: true, Record: true})
				scs = append(scs, &explore.Scenario{Name: fmt.Sprintf("B2d-%s-%s-%d%d", x.b, x.c, i, j), Base: x.b, Cfg: x.c, Threads: []explore.ThreadProg{bk, {w1, w2}}, Bound: -1, FSYield: true, YieldDirOnly: true, Record: true})
			}
		}
	}
	// a write acknowledged before the call, one during, one after (program order pins the first and the last)
	for _, x := range bcs[:4] {
		for i, w := range L[:3] {
			scs = append(scs, &explore.Scenario{Name: fmt.Sprintf("B3-%s-%s-%d", x.b, x.c, i), Base: x.b, Cfg: x.c,
				Threads: []explore.ThreadProg{{op(explore.Put, "b"), op(explore.Backup, ""), op(explore.Put, "a")}, {w, op(explore.Put, "b")}}, Bound: -1, FSYield: true, YieldDirOnly: true, Record: true})
		}
	}
	// two writers / a writer and Compact next to the backup
	for _, x := range []bc{{"E", "ROLL1"}, {"S2", "ROLL"}} {
		for i, w1 := range L[:3] {
			scs = append(scs, &explore.Scenario{Name: fmt.Sprintf("B4-%s-%s-%d", x.b, x.c, i), Base: x.b, Cfg: x.c, Threads: []explore.ThreadProg{bk, {w1}, {op(explore.Put, "b")}}, Bound: -1, FSYield: true, YieldDirOnly: true, Record: true})
			k2 := "e"
			if x.b == "E" {
				k2 = "d"
			}
			scs = append(scs, &explore.Scenario{Name: fmt.Sprintf("B5-%s-%s-%d", x.b, x.c, i), Base: x.b, Cfg: x.c, Threads: []explore.ThreadProg{bk, {w1, op(explore.Put, k2)}, {op(explore.Compact, "")}}, Bound: -1, FSYield: true, YieldDirOnly: true, Record: true})
		}
	}
	if thorough {
		for _, x := range bcs[:3] {
			for i, w1 := range L[:3] {
				for j, w2 := range L[:3] {
					for k, w3 := range L[:3] {
						scs = append(scs, &explore.Scenario{Name: fmt.Sprintf("B6-%s-%s-%d%d%d", x.b, x.c, i, j, k), Base: x.b, Cfg: x.c, Threads: []explore.ThreadProg{bk, {w1, w2, w3}}, Bound: -1, FSYield: true, YieldDirOnly: true, Record: true})
					}
				}
			}
		}
	}
	return scs
}

func c12Check(c *explore.Ctx, base *explore.Base, sc *explore.Scenario, memo map[string]*explore.Recovered) func(r *explore.ConcRun) (string, string) {
	lin := linCheck(base)
	return func(r *explore.ConcRun) (string, string) {
		if cl, msg := lin(r); msg != "" {
			return cl, msg
		}
		var bk *explore.Event
		var writes []explore.Event
		for i, e := range r.Events {
			switch e.Op.Kind {
			case explore.Backup:
				bk = &r.Events[i]
			case explore.Put, explore.Delete:
				writes = append(writes, e)
			}
		}
		if bk == nil {
			return "harness", "no Backup event"
		}
		if bk.Err != "" {
			return "backup-error", "Backup returned error: " + bk.Err
		}
		// critical sections of the writers are totally ordered; the return stamp is taken right after the
		// unlock without a scheduling point in between, so return order == critical-section order
		sort.Slice(writes, func(i, j int) bool { return writes[i].Ret < writes[j].Ret })
		lo := 0
		for lo < len(writes) && writes[lo].Ret < bk.Call {
			lo++
		}
		hi := lo
		for hi < len(writes) && writes[hi].Call < bk.Ret {
			hi++
		}
		// the source must not be written by the backup thread, and gets no new files
		bt := 0
		for _, e := range r.Events {
			if e.Op.Kind == explore.Backup {
				bt = e.Thread
			}
		}
		dir := bk.Val
		for _, o := range r.Sess.FS.Log {
			if o.Tag/100 == bt && o.Tag%100 == bk.Idx && o.Kind != simfs.OpSync {
				n := o.Name
				if strings.HasPrefix(n, explore.DBPath+"/") || strings.HasPrefix(o.Name2, explore.DBPath+"/") {
					return "source-modified", fmt.Sprintf("Backup modified the source database: %s", o.String())
				}
			}
		}
		img := r.Sess.FS.SubImage(dir, explore.DBPath)
		h := img.Hash()
		rec := memo[h]
		if rec == nil {
			rec = explore.RecoverImage(img, base.Cfg, base.Keys, base.Probe, base.Seed, explore.RecoverOpts{})
			memo[h] = rec
			c.Add("backups_opened", 1)
			c.Distinct("backup_image", explore.Hash64(sc.Base, sc.Cfg, h))
		}
		if rec.OpenErr != "" {
			return "backup-open", "Open of the backup failed: " + rec.OpenErr
		}
		if rec.Internal != "" {
			return "backup-inconsistent", "the opened backup is inconsistent: " + rec.Internal
		}
		m := base.Model.Clone()
		apply := func(e explore.Event) {
			k := string(base.Keys[e.Op.Key])
			if e.Op.Kind == explore.Put {
				m[k] = e.Val
			} else {
				delete(m, k)
			}
		}
		for _, e := range writes[:lo] {
			apply(e)
		}
		var cuts []string
		for j := lo; ; j++ {
			if m.Equal(rec.Contents) {
				c.Outcome("cut_position", fmt.Sprintf("%d of [%d,%d]", j-lo, 0, hi-lo))
				return "", ""
			}
			cuts = append(cuts, fmt.Sprintf("cut %d: %s", j, m.Diff(rec.Contents, r.Sess.KeyName)))
			if j >= hi {
				break
			}
			apply(writes[j])
		}
		return "not-a-snapshot", fmt.Sprintf("the backup's contents equal the database at no instant between Backup's call and return (%d writes acknowledged before the call, %d called before the return): %s", lo, hi, strings.Join(cuts, " | "))
	}
}

// c12Sequential: no concurrency - after every Backup of every word the opened backup must hold exactly the
// model. Bases E/S2: every backup goes to a fresh directory. Base EM2: every backup goes to the directory
// "bak", which already holds an older backup whose only segment file has the name the restarted log uses again.
func c12Sequential(c *explore.Ctx) {
	type sp struct {
		base, cfg string
		depth     int
		fixed     string
	}
	spaces := []sp{{"E", "ROLL", 3, ""}, {"S2", "ROLL", 2, ""}, {"S2", "ROLL1", 2, ""}, {"EM2", "ROLL", 3, "bak"}, {"S2", "ROLL", 4, "bak"}, {"E", "ROLL1", 4, "bak"}, {"LG15", "ROLL1", 2, ""}, {"LG", "ROLL", 4, ""}}
	if c.Thorough() {
		spaces = []sp{{"E", "ROLL", 5, ""}, {"S2", "ROLL", 4, ""}, {"S2", "ROLL1", 3, ""}, {"EM2", "ROLL", 5, "bak"}, {"E", "ROLL1", 4, ""}, {"S4", "ROLL", 3, ""}, {"S2", "ROLL", 4, "bak"}, {"E", "ROLL1", 5, "bak"}, {"S2", "ROLL1", 3, "bak"}, {"LG15", "ROLL1", 3, ""}, {"LG", "ROLL", 5, ""}}
	}
	for _, x := range spaces {
		if c.Expired() || c.NViolations() > 0 {
			return
		}
		base, err := explore.GetBase(x.base, cfgByName(x.cfg), 0)
		if err != nil {
			c.HarnessError("%v", err)
		}
		explore.PinSeed(0)
		letters := []explore.Op{{Kind: explore.Backup}, {Kind: explore.Put, Key: "a"}, {Kind: explore.Put, Key: "b"}, {Kind: explore.Delete, Key: "a"}, {Kind: explore.Delete, Key: "b"}, {Kind: explore.Compact}, {Kind: explore.Reopen}}
		x := x
		enumWords(c, letters, x.depth, func(word []explore.Op, checkFrom int) bool {
			if c.Expired() {
				return false
			}
			s := base.NewSess()
			s.FixedBackupDir = x.fixed
			mk := func(w []explore.Op, msg string) bool {
				return !c.Violation(explore.Violation{
					Key:    fmt.Sprintf("seq base=%s cfg=%s word=%s", x.base, x.cfg, explore.WordString(w)),
					What:   fmt.Sprintf("base %s/%s, [%s] (no concurrency; backups go to %s): %s", x.base, x.cfg, explore.WordString(w), map[bool]string{true: "one directory that already holds an older backup", false: "a fresh directory each"}[x.fixed != ""], msg),
					Size:   len(w),
					Replay: map[string]interface{}{"kind": "seq12", "base": x.base, "cfg": x.cfg, "word": opsJSON(w), "fixed_dir": x.fixed, "observed": msg},
				})
			}
			if err := s.OpenDB(); err != nil {
				return mk(nil, "Open: "+err.Error())
			}
			defer func() {
				if s.DB != nil {
					_ = s.DB.Close()
				}
			}()
			c.Add("executions", 1)
			c.Add("sequential_words", 1)
			for i, o := range word {
				err := s.Apply(o)
				c.Add("transitions", 1)
				if o.Kind != explore.Backup || i+1 < checkFrom {
					continue
				}
				w := word[:i+1]
				if err != nil {
					return mk(w, "Backup returned error: "+err.Error())
				}
				img := s.FS.SubImage(s.LastBackup, explore.DBPath)
				c.Distinct("backup_image", explore.Hash64(x.base, x.cfg, img.Hash()))
				rec := explore.RecoverImage(img, base.Cfg, base.Keys, base.Probe, base.Seed, explore.RecoverOpts{})
				c.Add("backups_opened", 1)
				switch {
				case rec.OpenErr != "":
					return mk(w, "Open of the backup failed: "+rec.OpenErr)
				case rec.Internal != "":
					return mk(w, "the opened backup is inconsistent: "+rec.Internal)
				case !s.Model.Equal(rec.Contents):
					return mk(w, "the opened backup does not hold the contents the database had when Backup was called: "+s.Model.Diff(rec.Contents, s.KeyName))
				}
			}
			return true
		})
	}
}

// c12Reuse: a backup directory is used again much later. W1, Backup(bak), W2, Backup(bak) for every W1 of a small
// list and every W2 of length <= d over writes, Compact and Reopen: between the two backups the log can be emptied
// and compacted away, the process restarted (sequence ids start over, segment names are used again) and reloaded
// with records of the same size. The second backup must open to exactly the contents at the second call.
func c12Reuse(c *explore.Ctx) {
	type sp struct {
		base, cfg string
		depth     int
	}
	spaces := []sp{{"E", "ROLL1", 5}, {"E", "ROLL", 4}}
	if c.Thorough() {
		spaces = []sp{{"E", "ROLL1", 6}, {"E", "ROLL", 6}, {"S2", "ROLL1", 5}}
	}
	for _, x := range spaces {
		base, err := explore.GetBase(x.base, cfgByName(x.cfg), 0)
		if err != nil {
			c.HarnessError("%v", err)
		}
		explore.PinSeed(0)
		pa, pb := explore.Op{Kind: explore.Put, Key: "a"}, explore.Op{Kind: explore.Put, Key: "b"}
		letters := []explore.Op{pa, pb, {Kind: explore.Delete, Key: "a"}, {Kind: explore.Delete, Key: "b"}, {Kind: explore.Compact}, {Kind: explore.Reopen}}
		w1s := [][]explore.Op{{pa}, {pa, pb}, {pa, pb, pa}}
		if x.cfg == "ROLL1" {
			// nine segments before the first backup: the ids freed by a later compaction are re-created under sequence
			// ids with two digits - a stale 00001-2.psg left in the destination sorts behind the live 00001-11.psg and
			// would win when the backup is opened (seed C12-s1)
			w1s = append(w1s, []explore.Op{pa, pa, pa, pa, pa, pa, pa, pa, pa})
		}
		for _, w1 := range w1s {
			x, w1 := x, w1
			enumWords(c, letters, x.depth, func(w2 []explore.Op, _ int) bool {
				if c.Expired() {
					return false
				}
				if len(w2) != x.depth {
					return true // shorter middles are prefixes of these with a different tail; depth-exact keeps the space flat
				}
				word := append(append(append([]explore.Op(nil), w1...), explore.Op{Kind: explore.Backup}), w2...)
				word = append(word, explore.Op{Kind: explore.Backup})
				s := base.NewSess()
				s.FixedBackupDir = "bak"
				mk := func(msg string) bool {
					return !c.Violation(explore.Violation{
						Key:    fmt.Sprintf("reuse base=%s cfg=%s word=%s", x.base, x.cfg, explore.WordString(word)),
						What:   fmt.Sprintf("base %s/%s, [%s] (no concurrency; both backups go to the same directory): %s", x.base, x.cfg, explore.WordString(word), msg),
						Size:   len(word),
						Replay: map[string]interface{}{"kind": "seq12", "base": x.base, "cfg": x.cfg, "word": opsJSON(word), "fixed_dir": "bak", "observed": msg},
					})
				}
				if err := s.OpenDB(); err != nil {
					return mk("Open: " + err.Error())
				}
				defer func() {
					if s.DB != nil {
						_ = s.DB.Close()
					}
				}()
				c.Add("executions", 1)
				c.Add("reuse_words", 1)
				for i, o := range word {
					err := s.Apply(o)
					c.Add("transitions", 1)
					if s.Panicked != "" {
						return mk(s.Panicked)
					}
					if i != len(word)-1 {
						continue
					}
					if err != nil {
						return mk("Backup returned error: " + err.Error())
					}
					img := s.FS.SubImage(s.LastBackup, explore.DBPath)
					c.Distinct("backup_image", explore.Hash64("reuse", x.base, x.cfg, img.Hash()))
					rec := explore.RecoverImage(img, base.Cfg, base.Keys, base.Probe, base.Seed, explore.RecoverOpts{})
					c.Add("backups_opened", 1)
					switch {
					case rec.OpenErr != "":
						return mk("Open of the backup failed: " + rec.OpenErr)
					case rec.Internal != "":
						return mk("the opened backup is inconsistent: " + rec.Internal)
					case !s.Model.Equal(rec.Contents):
						return mk("the opened backup does not hold the contents the database had when Backup was called: " + s.Model.Diff(rec.Contents, s.KeyName))
					}
				}
				return true
			})
		}
	}
}

// c12FailedBackup: "the source database is not affected by the backup" - also not by one that fails. A transient
// I/O error is injected at each mutating file-system call of Backup; afterwards the source must be fully usable:
// Compact is not refused, a Put works, a second Backup succeeds and opens to exactly the model.
func c12FailedBackup(c *explore.Ctx) {
	for _, bc := range [][2]string{{"S2", "ROLL"}, {"S3", "ROLL"}, {"E", "ROLL"}} {
		if !c.Mine() {
			continue
		}
		base, err := explore.GetBase(bc[0], cfgByName(bc[1]), 0)
		if err != nil {
			c.HarnessError("%v", err)
		}
		explore.PinSeed(0)
		for n := 1; n < 100; n++ {
			if c.Expired() || c.NViolations() > 0 {
				return
			}
			done, bad := c12FailedBackupCase(c, base, n)
			if bad != "" {
				c.Violation(explore.Violation{Key: fmt.Sprintf("failed-backup base=%s cfg=%s fault@%d", bc[0], bc[1], n),
					What: fmt.Sprintf("base %s/%s: Backup with a transient I/O error at its mutating file-system call #%d, then: %s", bc[0], bc[1], n, bad), Size: n,
					Replay: map[string]interface{}{"kind": "failbackup12", "base": bc[0], "cfg": bc[1], "fault_at": n, "observed": bad}})
				return
			}
			if done {
				break
			}
		}
	}
}

// c12FailedBackupCase: done = Backup makes fewer than n mutating file-system calls.
func c12FailedBackupCase(c *explore.Ctx, base *explore.Base, n int) (bool, string) {
	s := base.NewSess()
	if err := s.OpenDB(); err != nil {
		return true, "Open: " + err.Error()
	}
	before := s.FS.Mutations()
	s.FS.FailAt = before + n
	berr := s.Apply(explore.Op{Kind: explore.Backup})
	s.FS.FailAt = 0
	if s.FS.Mutations() < before+n {
		_ = s.ProtectedClose()
		return true, ""
	}
	c.Add("executions", 1)
	c.Add("failed_backup_probes", 1)
	c.Add("transitions", 5)
	bad := ""
	if berr == nil {
		// Backup reported success in spite of the failed file-system call: the directory it produced must
		// then be a complete backup
		c.Add("faulted_backups_reporting_success", 1)
		rec := explore.RecoverImage(s.FS.SubImage(s.LastBackup, explore.DBPath), base.Cfg, base.Keys, base.Probe, base.Seed, explore.RecoverOpts{})
		switch {
		case rec.OpenErr != "":
			bad = "Backup returned nil, the backup does not open: " + rec.OpenErr
		case rec.Internal != "" || !s.Model.Equal(rec.Contents):
			bad = "Backup returned nil, the backup does not hold the contents of the source: " + rec.Internal + " " + s.Model.Diff(rec.Contents, s.KeyName)
		}
	}
	if bad != "" {
	} else if err := s.Apply(explore.Op{Kind: explore.Compact}); err != nil {
		bad = "Compact returned error: " + err.Error()
	} else if err := s.Apply(explore.Op{Kind: explore.Put, Key: "a"}); err != nil {
		bad = "Put returned error: " + err.Error()
	} else if err := s.Apply(explore.Op{Kind: explore.Backup}); err != nil {
		bad = "a second Backup returned error: " + err.Error()
	} else if msg := s.Check(); msg != "" {
		bad = "the source database: " + msg
	} else {
		rec := explore.RecoverImage(s.FS.SubImage(s.LastBackup, explore.DBPath), base.Cfg, base.Keys, base.Probe, base.Seed, explore.RecoverOpts{})
		switch {
		case rec.OpenErr != "":
			bad = "the second backup does not open: " + rec.OpenErr
		case rec.Internal != "" || !s.Model.Equal(rec.Contents):
			bad = "the second backup does not hold the contents of the source: " + rec.Internal + " " + s.Model.Diff(rec.Contents, s.KeyName)
		}
	}
	if s.Panicked != "" {
		bad = s.Panicked
	}
	_ = s.ProtectedClose()
	return false, bad
}

// c12AfterShortWrite: a Backup taken after a write that failed half-way (a sector-granular short write left a part of a
// record in the segment; the application retried and carried on) must open to exactly the contents at the call.
func c12AfterShortWrite(c *explore.Ctx) {
	for _, bn := range []string{"E", "CH"} {
		if !c.Mine() {
			continue
		}
		base, err := explore.GetBase(bn, cfgByName("BIGC"), 0)
		if err != nil {
			c.HarnessError("%v", err)
		}
		explore.PinSeed(0)
		for _, o := range []explore.Op{{Kind: explore.Put, Key: base.Alpha[0]}, {Kind: explore.Delete, Key: base.Alpha[0]}} {
			for n := 1; n < 50; n++ {
				done, bad := c12AfterShortWriteCase(c, base, o, n)
				if bad != "" {
					c.Violation(explore.Violation{Key: fmt.Sprintf("backup-after-short-write base=%s op=%s fault@%d", bn, o, n),
						What: fmt.Sprintf("base %s/BIGC, segment padded to 8 bytes before a sector boundary, %s with a short write at its mutating file-system call #%d, the call retried, one more Put, Backup: %s", bn, o, n, bad), Size: n,
						Replay: map[string]interface{}{"kind": "shortwrite12", "base": bn, "cfg": "BIGC", "op": opsJSON([]explore.Op{o}), "fault_at": n, "observed": bad}})
					return
				}
				if done {
					break
				}
			}
		}
	}
}

func c12AfterShortWriteCase(c *explore.Ctx, base *explore.Base, o explore.Op, n int) (bool, string) {
	s := base.NewSess()
	s.FS.FailPartial = true
	if err := s.OpenDB(); err != nil {
		return true, "Open: " + err.Error()
	}
	defer func() { _ = s.ProtectedClose() }()
	if msg := padSegment(c, s); msg != "" {
		return true, msg
	}
	before := s.FS.Mutations()
	s.FS.FailAt = before + n
	err := s.Apply(o)
	s.FS.FailAt = 0
	if s.FS.Mutations() < before+n {
		return true, ""
	}
	c.Add("executions", 1)
	c.Add("backup_after_short_write_probes", 1)
	c.Add("transitions", 4)
	if err != nil {
		if err := s.Apply(o); err != nil {
			return false, "the retried call failed as well: " + err.Error()
		}
	}
	if err := s.Apply(explore.Op{Kind: explore.Put, Key: base.Alpha[1]}); err != nil {
		return false, "Put after the retry: " + err.Error()
	}
	if err := s.Apply(explore.Op{Kind: explore.Backup}); err != nil {
		return false, "Backup returned error: " + err.Error()
	}
	if s.Panicked != "" {
		return false, s.Panicked
	}
	rec := explore.RecoverImage(s.FS.SubImage(s.LastBackup, explore.DBPath), base.Cfg, base.Keys, base.Probe, base.Seed, explore.RecoverOpts{})
	switch {
	case rec.OpenErr != "":
		return false, "the backup does not open: " + rec.OpenErr
	case rec.Internal != "" || !s.Model.Equal(rec.Contents):
		return false, "the backup does not hold the contents the database had when Backup was called: " + rec.Internal + " " + s.Model.Diff(rec.Contents, s.KeyName)
	}
	return false, ""
}

func runC12(c *explore.Ctx) {
	c12AfterShortWrite(c)
	if c.Expired() || c.NViolations() > 0 {
		return
	}
	c12FailedBackup(c)
	if c.Expired() || c.NViolations() > 0 {
		return
	}
	c12Sequential(c)
	if c.Expired() || c.NViolations() > 0 {
		return
	}
	c12Reuse(c)
	if c.Expired() || c.NViolations() > 0 {
		return
	}
	memos := map[string]map[string]*explore.Recovered{}
	runScenarioSet(c, c12Scenarios(c.Thorough()), func(base *explore.Base, sc *explore.Scenario) func(r *explore.ConcRun) (string, string) {
		k := sc.Base + "/" + sc.Cfg
		if memos[k] == nil {
			memos[k] = map[string]*explore.Recovered{}
		}
		return c12Check(c, base, sc, memos[k])
	})
}

func init() {
	explore.Register(&explore.CheckInfo{
		Prop:  "C12",
		Level: "model_checking",
		Rule: "thread 1 runs Backup (optionally between two of its own Puts), the other threads run every 1-/2-letter (thorough: 3-letter) writer program over {Put(a),Put(b),Delete(a),Put(c)}, a second writer or Compact, on bases E/S2 under ROLL1/ROLL/BIGC (the log rolls over mid-backup): ALL interleavings where every lock operation AND every file-system call on a segment file or the directory is a scheduling point; " +
			"after each execution the backup directory is opened by the real Open and its contents must equal the model after a prefix of the writers' critical sections containing every write acknowledged before the call and none called after the return; Backup nil, backup opens consistently (structural walk), no log entry of the backup thread touches the source, source contents linearizable; states = distinct outcomes + distinct backup images",
		Assumptions:   []string{"calls on index/metadata files are not scheduling points (they happen under DB.mu and Backup never touches them)", "writer programs <= 2 (3) ops; time-sliced scenarios report the completed preemption bound"},
		QuickBudget:   100 * time.Second,
		ThorBudget:    25 * time.Minute,
		Run:           runC12,
		EvalKey:       "executions",
		DistinctClass: "outcome",
		StatesKey:     "distinct:outcome",
		TransKey:      "transitions",
		TracesKey:     "executions",
	})
}
