package main

import (
	"fmt"
	"os"
	"path/filepath"
	"runtime"
	"sort"
	"strings"
	"time"

	"github.com/akrylysov/pogreb"
	"github.com/akrylysov/pogreb/fs"
	"github.com/akrylysov/pogreb/zzverif/explore"
	"github.com/akrylysov/pogreb/zzverif/simfs"
	"github.com/akrylysov/pogreb/zzverif/vsync"
)

// C13: one open handle per directory; unclean shutdown always detected.
//
// Part 1 (protocol): threads call the real fs.OS.CreateLockFile / LockFile.Unlock (and "process
// death" = close the descriptor without unlinking) on a scratch directory; the verif yield hooks
// between stat / open / flock and between unlink / close are scheduling points; ALL interleavings
// of the real system calls of 2-3 parties are enumerated.
// Part 2 (database): the same through pogreb.Open / DB.Close on fs.OS and fs.OSMMap, plus sequential
// words over {Open, Close, Kill} on fs.OS, fs.OSMMap and {Open, Close} on fs.Mem.

type lockScenario struct {
	Name  string
	Init  string     // clean | unclean | heldU | heldK  (held: a pre-existing holder is thread 1, its program starts with U or K)
	Progs [][]string // per thread: steps "A" acquire, "U" unlock (clean end), "K" kill (die holding)
}

func (s lockScenario) describe() string {
	var p []string
	for i, pr := range s.Progs {
		p = append(p, fmt.Sprintf("T%d:%s", i+1, strings.Join(pr, "")))
	}
	return fmt.Sprintf("%s init=%s %s", s.Name, s.Init, strings.Join(p, " "))
}

func lockScenarios(thorough bool) []lockScenario {
	var scs []lockScenario
	two := [][]string{{"A"}, {"A", "U"}, {"A", "K"}}
	for _, init := range []string{"clean", "unclean"} {
		for i, p1 := range two {
			for j, p2 := range two {
				if j < i {
					continue
				}
				scs = append(scs, lockScenario{Name: fmt.Sprintf("OO-%d%d", i, j), Init: init, Progs: [][]string{p1, p2}})
			}
		}
	}
	for _, h := range []string{"U", "K"} {
		for i, p := range two {
			scs = append(scs, lockScenario{Name: fmt.Sprintf("H%s-O%d", h, i), Init: "held" + h, Progs: [][]string{{h}, p}})
		}
		// a holder that ends, and two openers
		for i, p1 := range two {
			for j, p2 := range two {
				if j < i {
					continue
				}
				scs = append(scs, lockScenario{Name: fmt.Sprintf("H%s-OO-%d%d", h, i, j), Init: "held" + h, Progs: [][]string{{h}, p1, p2}})
			}
		}
	}
	if thorough {
		three := [][]string{{"A"}, {"A", "U"}, {"A", "K"}, {"A", "U", "A"}}
		for _, init := range []string{"clean", "unclean"} {
			for i, p1 := range three {
				for j, p2 := range three {
					for k, p3 := range three {
						if j < i || k < j {
							continue
						}
						scs = append(scs, lockScenario{Name: fmt.Sprintf("OOO-%d%d%d", i, j, k), Init: init, Progs: [][]string{p1, p2, p3}})
					}
				}
			}
		}
	}
	return scs
}

type lockRun struct {
	X      *vsync.Exec
	Viol   string
	Class  string
	Events []string
}

// runLock executes the scenario once on a fresh scratch directory.
func runLock(sc lockScenario, scratch string, n int, prefix []int, trace bool) *lockRun {
	r := &lockRun{}
	dir := filepath.Join(scratch, fmt.Sprintf("l%d", n))
	_ = os.MkdirAll(dir, 0755)
	defer os.RemoveAll(dir)
	path := filepath.Join(dir, "lock")
	holders := 0
	lastLabel := map[int]string{}
	orphanCreator := map[int]bool{} // threads that created the lock file in an acquisition that did not succeed (so far)
	acquiring := 0                  // acquisitions in flight
	lastEnd := "clean"
	fail := func(class, msg string) {
		if r.Viol == "" {
			r.Class, r.Viol = class, msg
		}
	}
	ev := func(format string, a ...interface{}) {
		r.Events = append(r.Events, fmt.Sprintf(format, a...))
	}
	var stillHeld []fs.LockFile
	main := func() {
		var held0 fs.LockFile
		switch sc.Init {
		case "unclean":
			_ = os.WriteFile(path, nil, 0644)
			lastEnd = "killed"
		case "heldU", "heldK":
			l, _, err := fs.OS.CreateLockFile(path, 0644)
			if err != nil {
				fail("harness", "initial acquisition failed: "+err.Error())
				return
			}
			held0 = l
			holders = 1
		}
		var fns []func()
		for ti, prog := range sc.Progs {
			ti, prog := ti, prog
			fns = append(fns, func() {
				var mine fs.LockFile
				if ti == 0 && held0 != nil {
					mine = held0
				}
				for _, step := range prog {
					switch step {
					case "A":
						acquiring++
						me := vsync.ThreadID()
						l, existing, err := fs.OS.CreateLockFile(path, 0644)
						acquiring--
						if err == nil {
							delete(orphanCreator, me)
						}
						if err != nil {
							ev("T%d acquire: %v", ti+1, strings.ReplaceAll(err.Error(), dir, "<dir>"))
							if !os.IsExist(err) && err != os.ErrExist {
								fail("acquire-error", fmt.Sprintf("thread %d: lock acquisition failed with an error other than 'locked': %v", ti+1, strings.ReplaceAll(err.Error(), dir, "<dir>")))
							}
							continue
						}
						holders++
						ev("T%d acquired existing=%v (holders=%d, previous session ended %s)", ti+1, existing, holders, lastEnd)
						if holders > 1 {
							fail("two-holders", fmt.Sprintf("thread %d acquired the lock while another thread still holds it: %d simultaneous holders of one directory", ti+1, holders))
						}
						want := lastEnd == "killed"
						if existing != want && holders == 1 {
							if existing && len(orphanCreator) > 0 {
								// the file was created by another opener whose acquisition is still in flight (it loses the flock race)
								fail("spurious-recovery:creation-race", fmt.Sprintf("thread %d acquired the lock with acquiredExisting=true on a file that a concurrent first-time opener had just created and not yet locked: the previous session ended cleanly, so the Open would run an unnecessary recovery (and the creator is refused as 'locked')", ti+1))
							} else if existing {
								fail("spurious-recovery", fmt.Sprintf("thread %d acquired the lock with acquiredExisting=true although the previous session ended with a completed Unlock (the Open would run recovery on a cleanly closed database)", ti+1))
							} else {
								fail("missed-recovery", fmt.Sprintf("thread %d acquired the lock with acquiredExisting=false although the previous holder died without unlocking (the Open would skip recovery of an unclean database)", ti+1))
							}
						}
						mine = l
					case "U":
						if mine == nil {
							continue
						}
						holders--
						lastEnd = "clean"
						for k := range orphanCreator {
							delete(orphanCreator, k) // the file is removed
						}
						ev("T%d unlock", ti+1)
						if err := mine.Unlock(); err != nil {
							fail("unlock-error", fmt.Sprintf("thread %d: Unlock returned %v", ti+1, strings.ReplaceAll(err.Error(), dir, "<dir>")))
						}
						mine = nil
					case "K":
						if mine == nil {
							continue
						}
						holders--
						lastEnd = "killed"
						ev("T%d dies holding the lock", ti+1)
						_ = fs.VerifKillLock(mine)
						mine = nil
					}
				}
				if mine != nil {
					stillHeld = append(stillHeld, mine) // released after all threads have finished
				}
			})
		}
		vsync.Parallel(fns...)
		for _, l := range stillHeld {
			_ = fs.VerifKillLock(l)
		}
	}
	fs.VerifYield = func(label string) {
		// remember which thread created the lock file in an acquisition that has not succeeded (yet):
		// "lock:create" directly followed by "lock:flock" means the O_EXCL creation succeeded
		tid := vsync.ThreadID()
		if label == "lock:flock" && lastLabel[tid] == "lock:create" {
			orphanCreator[tid] = true
		}
		lastLabel[tid] = label
		vsync.Yield(label)
	}
	defer func() { fs.VerifYield = nil }()
	r.X = vsync.Run(prefix, vsync.Sched{KeepTrace: trace}, main)
	return r
}

func lockKey(class string, sc lockScenario) string {
	if class == "spurious-recovery:creation-race" {
		return class + " fs/os_unix.go:createLockFile (two first-time openers; the loser of the O_EXCL creation wins the flock)"
	}
	return fmt.Sprintf("%s %s", class, sc.describe())
}

func exploreLock(c *explore.Ctx, sc lockScenario, scratch string, deadline time.Time) *explore.Violation {
	knownSeen := map[string]bool{}
	n := 0
	a := runLock(sc, scratch, n, nil, true)
	b := runLock(sc, scratch, n, nil, true)
	if strings.Join(a.X.Trace, ";") != strings.Join(b.X.Trace, ";") || strings.Join(a.Events, ";") != strings.Join(b.Events, ";") {
		c.HarnessError("lock scenario %s: the same schedule produced two different executions", sc.describe())
	}
	var viol *explore.Violation
	outcome := func(r *lockRun) (string, string) {
		x := r.X
		switch {
		case x.Divergence != "":
			c.HarnessError("lock scenario %s: replay divergence: %s", sc.describe(), x.Divergence)
		case x.Panic != "":
			return "panic", "panic: " + strings.SplitN(x.Panic, "\n", 2)[0]
		case x.Deadlock != "":
			return "deadlock", "deadlock: " + x.Deadlock
		}
		return r.Class, r.Viol
	}
	run := func(prefix []int, sleep []int) *vsync.Exec {
		n++
		r := runLock(sc, scratch, n, prefix, false)
		c.Add("executions", 1)
		c.Add("transitions", int64(r.X.Steps))
		c.Distinct("outcome", explore.Hash64(sc.describe(), strings.Join(r.Events, ";")))
		c.Outcome(sc.Name+"/"+sc.Init, strings.Join(r.Events, ";"))
		class, msg := outcome(r)
		if msg != "" && viol == nil && !knownSeen[lockKey(class, sc)] {
			for i := 0; i < 5; i++ {
				n++
				r2 := runLock(sc, scratch, n, r.X.Choices, false)
				if c2, m2 := outcome(r2); c2 != class || m2 != msg {
					c.HarnessError("lock scenario %s: violation %q did not reproduce (got %q)", sc.describe(), msg, m2)
				}
			}
			n++
			tr := runLock(sc, scratch, n, r.X.Choices, true)
			key := lockKey(class, sc)
			v := &explore.Violation{
				Key:    key,
				What:   fmt.Sprintf("lock scenario %s, schedule %v: %s; system-call trace: %v; events: %v", sc.describe(), r.X.Choices, msg, tr.X.Trace, tr.Events),
				Size:   len(sc.describe()) + len(r.X.Choices),
				Replay: map[string]interface{}{"kind": "lock13", "name": sc.Name, "init": sc.Init, "progs": sc.Progs, "choices": r.X.Choices, "class": class, "observed": msg, "trace": tr.X.Trace, "events": tr.Events},
			}
			if c.IsKnown(key) {
				// a listed finding: report it (once) and keep exploring, a different violation must still be found
				c.Violation(*v)
				knownSeen[key] = true
			} else {
				viol = v
			}
		}
		return r.X
	}
	ex := &vsync.Explorer{Bound: -1, Deadline: deadline, Run: run, Check: func(x *vsync.Exec) bool { return viol == nil }}
	ex.Explore()
	c.Add("scenarios", 1)
	if ex.Truncated {
		c.MarkTruncated()
		c.Cap("time slice ended in lock scenario " + sc.describe())
	} else if viol == nil {
		c.Add("scenarios_unbounded_complete", 1)
	}
	c.Sample(map[string]interface{}{"lock_scenario": sc.describe(), "schedules": ex.Execs, "max_choice_points": ex.MaxDepth})
	return viol
}

// ---------------------------------------------------------------------------------------------
// Part 2: through pogreb.Open / Close / process death, sequential words on the real file systems

type recFS struct {
	fs.FileSystem
	renamedToBac int
	files        []fs.File // every file the session opened: a killed process gives them back to the kernel
}

func (r *recFS) OpenFile(name string, flag int, perm os.FileMode) (fs.File, error) {
	f, err := r.FileSystem.OpenFile(name, flag, perm)
	if err == nil {
		r.files = append(r.files, f)
	}
	return f, err
}

// die releases what the kernel releases when a process dies: descriptors and mappings (nothing is written; without
// this the harness process accumulates a gigabyte of address space per file of every killed session).
func (r *recFS) die() {
	for _, f := range r.files {
		_ = f.Close()
	}
	r.files = nil
}

func (r *recFS) Rename(o, n string) error {
	if strings.HasSuffix(n, ".bac") {
		r.renamedToBac++
	}
	return r.FileSystem.Rename(o, n)
}

func dirListing(dir string) string {
	ents, err := os.ReadDir(dir)
	if err != nil {
		return "ERR " + err.Error()
	}
	var l []string
	for _, e := range ents {
		fi, err := e.Info()
		if err != nil {
			continue
		}
		data, _ := os.ReadFile(filepath.Join(dir, e.Name()))
		l = append(l, fmt.Sprintf("%s:%d:%x", e.Name(), fi.Size(), explore.Hash64(string(data))))
	}
	sort.Strings(l)
	return strings.Join(l, ",")
}

// seqWord runs a word over {O: Open, C: Close the oldest open handle, K: kill the oldest open handle,
// P: Put through the oldest open handle} on a real file system.
func seqWord(c *explore.Ctx, kind string, word string, scratch string, n int) *explore.Violation {
	mk := func(class, msg string) *explore.Violation {
		return &explore.Violation{Key: fmt.Sprintf("seq %s fs=%s word=%s", class, kind, word), What: fmt.Sprintf("sequential word %s on fs=%s: %s", word, kind, msg), Size: len(word),
			Replay: map[string]interface{}{"kind": "seq13", "fs": kind, "word": word, "observed": msg}}
	}
	var base fs.FileSystem
	dir := filepath.Join(scratch, fmt.Sprintf("s%d", n))
	switch kind {
	case "mem":
		base = fs.Mem
		dir = fmt.Sprintf("c13-%d-%d", os.Getpid(), n)
	case "os":
		base = fs.OS
	default:
		base = fs.OSMMap
	}
	if kind != "mem" {
		defer os.RemoveAll(dir)
	}
	var open []*pogreb.DB
	var openFS []*recFS
	lastEnd := "clean"
	model := map[string]string{}
	nput := 0
	for i, ch := range word {
		switch ch {
		case 'O':
			rf := &recFS{FileSystem: base}
			before := ""
			if kind != "mem" {
				before = dirListing(dir)
			}
			if len(open) > 0 {
				// the holder's lock must not depend on anything the garbage collector may finalise
				for g := 0; g < 3; g++ {
					runtime.GC()
					time.Sleep(200 * time.Microsecond)
				}
			}
			db, err := pogreb.Open(dir, &pogreb.Options{FileSystem: rf, BackgroundSyncInterval: -1})
			if len(open) > 0 {
				if err == nil {
					return mk("two-handles", fmt.Sprintf("step %d: Open succeeded while another handle of the directory is open", i+1))
				}
				if !strings.Contains(err.Error(), "locked") {
					return mk("wrong-error", fmt.Sprintf("step %d: competing Open failed with %q, want a 'locked' error", i+1, err))
				}
				if kind != "mem" {
					if after := dirListing(dir); after != before {
						return mk("failed-open-changed-dir", fmt.Sprintf("step %d: a failed competing Open changed the directory: before %s after %s", i+1, before, after))
					}
				}
				continue
			}
			if err != nil {
				return mk("open-error", fmt.Sprintf("step %d: Open failed: %v", i+1, err))
			}
			recovered := rf.renamedToBac > 0
			if recovered != (lastEnd == "killed") {
				return mk("recovery-mismatch", fmt.Sprintf("step %d: Open ran recovery=%v but the previous session ended %s", i+1, recovered, lastEnd))
			}
			if int(db.Count()) != len(model) {
				return mk("contents", fmt.Sprintf("step %d: Count=%d want %d", i+1, db.Count(), len(model)))
			}
			for k, v := range model {
				got, err := db.Get([]byte(k))
				if err != nil || string(got) != v {
					return mk("contents", fmt.Sprintf("step %d: Get(%s)=%q,%v want %q", i+1, k, got, err, v))
				}
			}
			open = append(open, db)
			openFS = append(openFS, rf)
		case 'P':
			if len(open) == 0 {
				continue
			}
			nput++
			k, v := fmt.Sprintf("k%d", nput%3), fmt.Sprintf("v%d", nput)
			if err := open[0].Put([]byte(k), []byte(v)); err != nil {
				return mk("put-error", fmt.Sprintf("step %d: Put: %v", i+1, err))
			}
			model[k] = v
		case 'C':
			if len(open) == 0 {
				continue
			}
			if err := open[0].Close(); err != nil {
				return mk("close-error", fmt.Sprintf("step %d: Close: %v", i+1, err))
			}
			open = open[1:]
			openFS = openFS[1:]
			lastEnd = "clean"
		case 'K':
			if len(open) == 0 || kind == "mem" {
				continue
			}
			if err := fs.VerifKillLock(open[0].VerifLockFile()); err != nil {
				return mk("harness", "kill: "+err.Error())
			}
			openFS[0].die()
			open = open[1:]
			openFS = openFS[1:]
			lastEnd = "killed"
		}
	}
	for i, db := range open {
		_ = fs.VerifKillLock(db.VerifLockFile())
		openFS[i].die()
	}
	return nil
}

// ---------------------------------------------------------------------------------------------
// Part 3: a competing Open against a running Close, at file-system-call granularity (simfs, scheduler)

func c13OpenCloseScenarios() []*explore.Scenario {
	var scs []*explore.Scenario
	for i, pre := range []explore.ThreadProg{{}, {op(explore.Put, "a")}, {op(explore.Delete, "a"), op(explore.Put, "n")}} {
		t1 := append(append(explore.ThreadProg{}, pre...), op(explore.Close, ""))
		scs = append(scs, &explore.Scenario{Name: fmt.Sprintf("OC-%d", i), Base: "S2", Cfg: "ROLL", Threads: []explore.ThreadProg{t1, {op(explore.Open2, "")}}, Bound: -1, FSYield: true})
	}
	scs = append(scs, &explore.Scenario{Name: "OC-CH", Base: "CH", Cfg: "BIGC", Threads: []explore.ThreadProg{{op(explore.Put, "x"), op(explore.Close, "")}, {op(explore.Open2, "")}}, Bound: -1, FSYield: true})
	scs = append(scs, &explore.Scenario{Name: "OC-2", Base: "S2", Cfg: "ROLL", Threads: []explore.ThreadProg{{op(explore.Put, "a"), op(explore.Close, "")}, {op(explore.Open2, "")}, {op(explore.Open2, "")}}, Bound: 2, FSYield: true})
	return scs
}

func c13OpenCloseCheck(base *explore.Base) func(r *explore.ConcRun) (string, string) {
	return func(r *explore.ConcRun) (string, string) {
		var cl *explore.Event
		model := base.Model.Clone()
		evs := append([]explore.Event(nil), r.Events...)
		sort.Slice(evs, func(i, j int) bool { return evs[i].Call < evs[j].Call })
		for i, e := range evs {
			if e.Thread != 1 {
				continue
			}
			switch e.Op.Kind {
			case explore.Put:
				if e.Err == "" {
					model[string(base.Keys[e.Op.Key])] = e.Val
				}
			case explore.Delete:
				if e.Err == "" {
					delete(model, string(base.Keys[e.Op.Key]))
				}
			case explore.Close:
				cl = &evs[i]
			}
		}
		if cl == nil || cl.Err != "" {
			return "close-error", fmt.Sprintf("Close failed: %v", cl)
		}
		for _, e := range evs {
			if e.Op.Kind != explore.Open2 {
				continue
			}
			if !e.Found {
				if !strings.Contains(e.Err, "locked") {
					return "wrong-error", "a competing Open failed with " + e.Err + ", want a 'locked' error"
				}
				continue
			}
			// the second handle was open (and read) at e.PairT[0]: that must be after Close returned
			if len(e.PairT) > 0 && e.PairT[0] < cl.Ret && e.Call < cl.Ret {
				return "two-handles", "a competing Open succeeded before the owner's Close had returned: two open handles of one directory"
			}
			if e.Val != "" {
				return "second-handle", "second handle: " + e.Val
			}
			got := explore.Model{}
			for _, p := range e.Pairs {
				got[p[0]] = p[1]
			}
			if e.N != len(model) || !model.Equal(got) {
				return "second-handle-contents", fmt.Sprintf("a competing Open that succeeded shows Count=%d and contents that differ from what the owner closed: %s", e.N, model.Diff(got, r.Sess.KeyName))
			}
		}
		r.ReopenAfter()
		if r.ReopenMsg != "" {
			return "reopen", r.ReopenMsg
		}
		if !model.Equal(r.Reopened) {
			return "final", "after the scenario the directory does not hold the closed contents: " + model.Diff(r.Reopened, r.Sess.KeyName)
		}
		return "", ""
	}
}

// Part 4: an Open that fails (injected I/O error at each of its mutating file-system calls) on an unclean
// directory must not lose the unclean-shutdown marker: the next Open (a new process) recovers.
func c13FailedOpen(c *explore.Ctx) {
	for _, bc := range [][2]string{{"S2", "ROLL"}, {"CH", "BIGC"}, {"T", "BIGC"}} {
		base, err := explore.GetBase(bc[0], cfgByName(bc[1]), 0)
		if err != nil {
			c.HarnessError("%v", err)
		}
		explore.PinSeed(0)
		unclean := base.Image.Clone()
		unclean.SetBytes(explore.DBPath+"/lock", nil)
		done := false
		for n := 1; n < 400; n++ {
			// (every worker draws the same sequence of Mine() answers: no early exit from this loop)
			if mine := c.Mine(); !mine || done {
				continue
			}
			if c.Expired() || c.NViolations() > 0 {
				return
			}
			fewer, openErr, msg := c13FailedOpenCase(c, base, bc[0], unclean, n)
			if fewer {
				done = true // the recovering Open makes fewer than n mutating calls
			}
			if msg != "" {
				c.Violation(explore.Violation{Key: fmt.Sprintf("failed-open base=%s cfg=%s fault@%d", bc[0], bc[1], n),
					What: fmt.Sprintf("unclean directory %s/%s; an Open fails with an injected I/O error at its mutating file-system call #%d (%v); then: %s", bc[0], bc[1], n, openErr, msg), Size: n,
					Replay: map[string]interface{}{"kind": "failopen13", "base": bc[0], "cfg": bc[1], "fault_at": n, "observed": msg}})
				return
			}
		}
	}
}

// c13FailedOpenCase: fewer = the recovering Open makes fewer than n mutating calls.
func c13FailedOpenCase(c *explore.Ctx, base *explore.Base, bname string, unclean *simfs.FS, n int) (fewer bool, openErr error, msg string) {
	img := unclean.Clone()
	img.FailAt = n
	db, err := pogreb.Open(explore.DBPath, base.Cfg.Options(img))
	c.Add("executions", 1)
	c.Add("failed_open_probes", 1)
	c.Add("transitions", 2)
	if err == nil {
		_ = db.Close()
		return img.FailAt > 0 && !injectedHit(img, n), nil, ""
	}
	// the failed process is gone; a new one opens the directory as the failed Open left it
	next := img.Clone()
	next.Record = true
	rec := explore.RecoverImage(next, base.Cfg, base.Keys, base.Probe, 0, explore.RecoverOpts{KeepLog: true})
	c.Distinct("outcome", explore.Hash64("fo", bname, next.Hash()))
	switch {
	case rec.OpenErr != "":
		msg = "the next Open failed: " + rec.OpenErr
	case !explore.RanRecovery(rec.OpenLog):
		msg = "the next Open did not run recovery although the last session never completed Close"
	case rec.Internal != "":
		msg = "the recovered database is inconsistent: " + rec.Internal
	case !base.Model.Equal(rec.Contents):
		msg = "the next Open shows wrong contents: " + base.Model.Diff(rec.Contents, func(k string) string { return fmt.Sprintf("%x", k) })
	}
	return false, err, msg
}

// c13FailedClose: a Close that fails (injected I/O error at each of its mutating file-system calls) has not
// completed: whatever it leaves behind, the next process must see the acknowledged contents (i.e. the
// unclean-shutdown marker may only disappear once everything the next Open trusts is in place).
func c13FailedClose(c *explore.Ctx) {
	for _, bc := range [][2]string{{"S2", "ROLL"}, {"CH", "BIGC"}, {"FL", "BIGC"}} {
		base, err := explore.GetBase(bc[0], cfgByName(bc[1]), 0)
		if err != nil {
			c.HarnessError("%v", err)
		}
		explore.PinSeed(0)
		memo := recMemo{}
		for _, pre := range [][]explore.Op{{}, {{Kind: explore.Put, Key: base.Alpha[0]}}, {{Kind: explore.Delete, Key: base.Alpha[0]}, {Kind: explore.Put, Key: base.Alpha[len(base.Alpha)-1]}}} {
			if !c.Mine() {
				continue
			}
			for n := 1; n < 200; n++ {
				if c.Expired() || c.NViolations() > 0 {
					return
				}
				done, v := c04FaultCase(c, base, bc[0], bc[1], pre, explore.Op{Kind: explore.Close}, n, memo)
				if v != nil {
					c.Violation(*v)
					return
				}
				if done {
					break
				}
			}
		}
	}
}

func injectedHit(img *simfs.FS, n int) bool { return img.Mutations() >= n }

func runC13(c *explore.Ctx) {
	scratch, err := os.MkdirTemp("/dev/shm", "pogverif-c13-")
	if err != nil {
		c.HarnessError("no scratch directory: %v", err)
	}
	defer os.RemoveAll(scratch)
	// part 2 first (small): all words of length <= d over {O,C,K,P}
	depth := 5
	if c.Thorough() {
		depth = 7
	}
	letters := "OCKP"
	n := 0
	var rec func(w string)
	rec = func(w string) {
		if c.NViolations() > 0 || c.Expired() {
			return
		}
		if len(w) == depth {
			if !c.Mine() {
				return
			}
			for _, kind := range []string{"os", "osmmap", "mem"} {
				n++
				c.Add("executions", 1)
				c.Add("transitions", int64(len(w)))
				c.Add("sequential_words", 1)
				c.Distinct("outcome", explore.Hash64("seq", kind, w))
				if v := seqWord(c, kind, w, scratch, n); v != nil {
					c.Violation(*v)
					return
				}
			}
			return
		}
		for _, l := range letters {
			rec(w + string(l))
		}
	}
	rec("O")
	c13FailedOpen(c)
	if c.Expired() || c.NViolations() > 0 {
		return
	}
	c13FailedClose(c)
	if c.Expired() || c.NViolations() > 0 {
		return
	}
	// part 1: protocol interleavings
	var mine []lockScenario
	for _, sc := range lockScenarios(c.Thorough()) {
		if only := c.Args["only"]; only != "" && sc.Name != only {
			continue
		}
		if c.Mine() {
			mine = append(mine, sc)
		}
	}
	for i, sc := range mine {
		if c.Expired() || c.NViolations() > 0 {
			return
		}
		left := time.Until(c.Deadline)
		share := left / time.Duration(len(mine)-i)
		if share < 2*time.Second {
			share = 2 * time.Second
		}
		if v := exploreLock(c, sc, scratch, time.Now().Add(share)); v != nil {
			c.Violation(*v)
		}
	}
	// part 3: competing Open against a running Close (scheduler on simfs, file-system calls are scheduling points)
	runScenarioSet(c, c13OpenCloseScenarios(), func(base *explore.Base, sc *explore.Scenario) func(r *explore.ConcRun) (string, string) {
		return c13OpenCloseCheck(base)
	})
}

func init() {
	explore.Register(&explore.CheckInfo{
		Prop:  "C13",
		Level: "model_checking",
		Rule: "protocol: 2-3 threads run every combination of the programs {acquire, acquire+unlock, acquire+die} (plus a pre-existing holder that unlocks or dies; clean and unclean start) through the REAL fs.OS.CreateLockFile / Unlock on a scratch directory, the yield hooks between stat/open/flock and unlink/close being scheduling points: ALL interleavings of the real system calls; " +
			"invariants in every state: at most one holder; a successful acquisition reports acquiredExisting == (the previous session died without unlocking / the directory started unclean); only 'locked' errors. " +
			"database level: every word of length <= d over {Open, Close, Kill, Put} on fs.OS, fs.OSMMap (and without Kill on fs.Mem): a competing Open fails with 'locked' and leaves the directory byte-identical, recovery (rename to .bac observed through a recording FileSystem wrapper) runs iff the previous session was killed, contents preserved. states = distinct event sequences",
		Assumptions:   []string{"flock semantics of the running kernel (per open file description); 'process death' = closing the descriptor without unlinking", "fs.Mem has no process-death model (its lock is an in-memory flag)"},
		QuickBudget:   100 * time.Second,
		ThorBudget:    25 * time.Minute,
		ASLimitMB:     1 << 20, // fs.OSMMap reserves 1 GiB of address space per open file
		Run:           runC13,
		EvalKey:       "executions",
		DistinctClass: "outcome",
		StatesKey:     "distinct:outcome",
		TransKey:      "transitions",
		TracesKey:     "executions",
	})
}
