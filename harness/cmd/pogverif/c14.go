package main

import (
	"bytes"
	"fmt"
	"os"
	"path/filepath"
	"runtime/debug"
	"strings"
	"time"

	"github.com/akrylysov/pogreb"
	"github.com/akrylysov/pogreb/fs"
	"github.com/akrylysov/pogreb/zzverif/explore"
	"github.com/akrylysov/pogreb/zzverif/simfs"
)

// C14: returned byte slices belong to the caller; the database keeps no reference to slices passed in.
//
// For every base and every word of length <= d over {Put(same), Put(other), Delete(same), Compact,
// Sync, Reopen, Close} executed AFTER a set of reads (Get, GetAppend(nil), GetAppend(buf with spare
// capacity), a fully drained scan, and an iterator that is left half-drained): after every step
// every slice returned earlier must still equal the snapshot taken when it was returned (reading
// it is also the fault probe), and the half-drained iterator, drained at the end, must return
// pairs that were really put. Conversely the harness overwrites every key/value slice it passed in
// as soon as the call returns.
// Run on (i) simfs in mmap-lifetime mode: memory handed out by File.Slice is overwritten with 0xA5 as
// soon as the file is written, truncated, or the handle is closed - the strictest legal FileSystem
// (one that remaps on every growth); (ii) the real fs.OSMMap and fs.OS with SetPanicOnFault.

type heldSlice struct {
	what string
	buf  []byte
	snap []byte
}

type c14Letter struct {
	Name, Kind string
}

var c14Letters = []c14Letter{{"Put(same)", "putsame"}, {"Put(other)", "putother"}, {"Delete(same)", "delsame"}, {"Compact", "compact"}, {"Sync", "sync"}, {"Reopen", "reopen"}, {"Close", "close"}, {"Put(new)", "putnew"}}

// c14Run executes reads + word on one target. It returns a description of the first violation.
func c14Run(fsys fs.FileSystem, dir string, cfg explore.Config, base *explore.Base, same, other, newKey string, word []c14Letter) (msg string) {
	debug.SetPanicOnFault(true)
	stage := "open"
	defer func() {
		if r := recover(); r != nil {
			msg = fmt.Sprintf("%s: panic/fault: %v", stage, r)
		}
	}()
	explore.PinSeed(base.Seed)
	db, err := pogreb.Open(dir, cfg.Options(fsys))
	if err != nil {
		return "Open: " + err.Error()
	}
	open := true
	defer func() {
		if open {
			_ = db.Close()
		}
	}()
	put := map[string]map[string]bool{} // key -> values ever put (for the late-drained iterator)
	for k, v := range base.Model {
		put[k] = map[string]bool{v: true}
	}
	// a key with an EMPTY value followed by another record (so that file bytes follow the empty value)
	emptyKey, afterKey := []byte("c14-empty-value"), []byte("c14-after")
	if err := db.Put(emptyKey, []byte{}); err != nil {
		return "Put(empty value): " + err.Error()
	}
	if err := db.Put(afterKey, []byte("after-value")); err != nil {
		return "Put: " + err.Error()
	}
	put[string(emptyKey)] = map[string]bool{"": true}
	put[string(afterKey)] = map[string]bool{"after-value": true}
	// scribble probes: what a read returns is the caller's - contents AND spare capacity. The caller
	// overwrites both; neither the file system's memory nor any stored record may change.
	stage = "scribble probes"
	scribble := func(b []byte) {
		for i := range b {
			b[i] ^= 0xFF
		}
		if spare := b[len(b):cap(b)]; len(spare) > 0 {
			for i := range spare {
				spare[i] = 0x33
			}
		}
	}
	for _, k := range [][]byte{base.Keys[same], emptyKey, base.Keys[other]} {
		v, _ := db.Get(k)
		scribble(v)
		v, _ = db.GetAppend(k, nil)
		scribble(v)
		v, _ = db.GetAppend(k, make([]byte, 0, 1))
		scribble(v)
	}
	sit := db.Items()
	for i := 0; i < 3; i++ {
		k, v, err := sit.Next()
		if err != nil {
			break
		}
		// key and value of one pair are independent slices: growing the key in place must not touch the value
		vsnap := append([]byte(nil), v...)
		if spare := k[len(k):cap(k)]; len(spare) > 0 {
			for j := range spare {
				spare[j] = 0x44
			}
		}
		if !bytes.Equal(v, vsnap) {
			return fmt.Sprintf("the value returned by Next changed from %q to %q when the caller wrote into the spare capacity of the KEY returned by the same call (append(key, ...))", trunc(vsnap), trunc(v))
		}
		scribble(k)
		scribble(v)
	}
	if sim, ok := fsys.(*simfs.FS); ok {
		if m := sim.SlicesIntact(); m != "" {
			return "after the caller overwrote slices returned by Get/GetAppend/Next (contents and spare capacity): " + m
		}
	}
	for k, vs := range put {
		v, err := db.Get([]byte(k))
		if err != nil || v == nil || !vs[string(v)] {
			return fmt.Sprintf("after the caller overwrote slices returned by Get/GetAppend/Next (contents and spare capacity), Get(%x) returns %q, err=%v: a stored record was damaged through a returned slice", k, trunc(v), err)
		}
	}
	var held []heldSlice
	hold := func(what string, b []byte) {
		if b != nil {
			held = append(held, heldSlice{what: what, buf: b, snap: append([]byte(nil), b...)})
		}
	}
	// the reads
	stage = "reads"
	for _, r := range []string{same, other} {
		k := base.Keys[r]
		v, err := db.Get(k)
		if err != nil {
			return "Get: " + err.Error()
		}
		hold("Get("+r+")", v)
		v, err = db.GetAppend(k, nil)
		if err != nil {
			return "GetAppend: " + err.Error()
		}
		hold("GetAppend("+r+",nil)", v)
		buf := make([]byte, 2, 4096)
		buf[0], buf[1] = 'P', 'X'
		v, err = db.GetAppend(k, buf)
		if err != nil {
			return "GetAppend: " + err.Error()
		}
		hold("GetAppend("+r+",buf)", v)
	}
	full := db.Items()
	for i := 0; i < 100000; i++ {
		k, v, err := full.Next()
		if err == pogreb.ErrIterationDone {
			break
		}
		if err != nil {
			return "Next: " + err.Error()
		}
		if i < 40 {
			hold(fmt.Sprintf("Next key #%d", i), k)
			hold(fmt.Sprintf("Next value #%d", i), v)
		}
	}
	half := db.Items()
	if k, v, err := half.Next(); err == nil {
		hold("half-drained iterator: first key", k)
		hold("half-drained iterator: first value", v)
	}
	check := func(after string) string {
		for _, h := range held {
			if !bytes.Equal(h.buf, h.snap) {
				return fmt.Sprintf("after %s: the slice returned by %s changed from %q to %q", after, h.what, trunc(h.snap), trunc(h.buf))
			}
		}
		return ""
	}
	nval := 0
	doPut := func(role string) error {
		nval++
		k := append([]byte(nil), base.Keys[role]...)
		v := []byte(fmt.Sprintf("w%03d", nval))
		if put[string(k)] == nil {
			put[string(k)] = map[string]bool{}
		}
		put[string(k)][string(v)] = true
		err := db.Put(k, v)
		// the caller owns its slices again: overwrite them
		for i := range k {
			k[i] = 0xEE
		}
		for i := range v {
			v[i] = 0xEE
		}
		return err
	}
	var done []string
	for _, l := range word {
		stage = "step " + l.Name
		done = append(done, l.Name)
		var err error
		switch l.Kind {
		case "putsame":
			err = doPut(same)
		case "putother":
			err = doPut(other)
		case "putnew":
			err = doPut(newKey)
		case "delsame":
			k := append([]byte(nil), base.Keys[same]...)
			err = db.Delete(k)
			for i := range k {
				k[i] = 0xEE
			}
		case "compact":
			_, err = db.Compact()
		case "sync":
			err = db.Sync()
		case "reopen":
			if err = db.Close(); err == nil {
				open = false
				db, err = pogreb.Open(dir, cfg.Options(fsys))
				if err == nil {
					open = true
					// the old iterator belongs to the closed handle; a new half-drained one for the new handle
					half = db.Items()
					if k, v, e := half.Next(); e == nil {
						hold("half-drained iterator (after Reopen): first key", k)
						hold("half-drained iterator (after Reopen): first value", v)
					}
				}
			}
		case "close":
			err = db.Close()
			open = false
		}
		if err != nil {
			return fmt.Sprintf("[%s]: %s returned error: %v", strings.Join(done, ", "), l.Name, err)
		}
		stage = "comparing slices after " + l.Name
		if m := check("[" + strings.Join(done, ", ") + "]"); m != "" {
			return m
		}
		if !open {
			break
		}
	}
	if open {
		// reads after the caller overwrote its input slices: what was put must read back
		stage = "draining the half-drained iterator"
		for i := 0; i < 100000; i++ {
			k, v, err := half.Next()
			if err == pogreb.ErrIterationDone {
				break
			}
			if err != nil {
				return fmt.Sprintf("after [%s]: Next of the half-drained iterator returned error: %v", strings.Join(done, ", "), err)
			}
			if !put[string(k)][string(v)] {
				return fmt.Sprintf("after [%s]: the half-drained iterator returned (%x,%q), a pair that was never put", strings.Join(done, ", "), k, trunc(v))
			}
		}
		stage = "final reads"
		for k, vs := range put {
			v, err := db.Get([]byte(k))
			if err != nil {
				return "final Get: " + err.Error()
			}
			if v != nil && !vs[string(v)] {
				return fmt.Sprintf("after [%s]: Get(%x) returned %q which was never put (the database kept a reference to a slice the caller overwrote?)", strings.Join(done, ", "), k, trunc(v))
			}
		}
		if m := check("[" + strings.Join(done, ", ") + "] and the final reads"); m != "" {
			return m
		}
	}
	return ""
}

func trunc(b []byte) string {
	if len(b) > 24 {
		return string(b[:24]) + "..."
	}
	return string(b)
}

func runC14(c *explore.Ctx) {
	scratch, err := os.MkdirTemp("/dev/shm", "pogverif-c14-")
	if err != nil {
		c.HarnessError("no scratch directory: %v", err)
	}
	defer os.RemoveAll(scratch)
	type sp struct {
		base, cfg           string
		same, other, newKey string
		depth, realDepth    int
	}
	spaces := []sp{{"S2", "ROLL", "a", "e", "n", 3, 2}, {"S3", "ROLL", "a", "c", "n", 3, 2}, {"CH", "ROLL", "o0", "h0", "y", 2, 2}, {"S4", "ROLL", "e", "a", "n", 3, 0}, {"SP", "BIGC", "o0", "h0", "n1", 2, 1}}
	if c.Thorough() {
		spaces = []sp{{"S2", "ROLL", "a", "e", "n", 5, 4}, {"S3", "ROLL", "a", "c", "n", 5, 3}, {"CH", "ROLL", "o0", "h0", "y", 4, 3}, {"S4", "ROLL", "e", "a", "n", 5, 3}, {"SP", "BIGC", "o0", "h0", "n1", 4, 3}, {"S2", "ROLL1", "b", "a", "n", 5, 4}}
	}
	n := 0
	for _, s := range spaces {
		base, err := explore.GetBase(s.base, cfgByName(s.cfg), 0)
		if err != nil {
			c.HarnessError("%v", err)
		}
		for _, kind := range []string{"sim-poison", "osmmap", "os", "mem"} {
			depth := s.depth
			if kind != "sim-poison" {
				depth = s.realDepth
			}
			if depth == 0 {
				continue
			}
			idx := make([]int, depth)
			var rec func(pos int) bool
			rec = func(pos int) bool {
				if c.Expired() || c.NViolations() > 0 {
					return false
				}
				if pos == depth {
					word := make([]c14Letter, depth)
					var names []string
					for i, x := range idx {
						word[i] = c14Letters[x]
						names = append(names, word[i].Name)
					}
					n++
					var fsys fs.FileSystem
					dir := explore.DBPath
					switch kind {
					case "sim-poison":
						img := base.Image.Clone()
						img.Poison = true
						fsys = img
					case "osmmap", "os", "mem":
						dir = filepath.Join(scratch, fmt.Sprintf("d%d", n))
						fsys = fs.OSMMap
						if kind == "os" {
							fsys = fs.OS
						}
						if kind == "mem" {
							fsys = fs.Mem
							dir = fmt.Sprintf("c14-%d-%d", os.Getpid(), n)
						}
						if err := copyImage(base.Image, fsys, dir); err != nil {
							c.HarnessError("copying base image: %v", err)
						}
					}
					msg := c14Run(fsys, dir, base.Cfg, base, s.same, s.other, s.newKey, word)
					if kind == "osmmap" || kind == "os" {
						_ = os.RemoveAll(dir)
					}
					if kind == "mem" {
						if ents, err := fs.Mem.ReadDir(dir); err == nil {
							for _, e := range ents {
								_ = fs.Mem.Remove(filepath.Join(dir, e.Name()))
							}
						}
					}
					c.Add("executions", 1)
					c.Add("transitions", int64(depth))
					c.Distinct("outcome", explore.Hash64(s.base, s.cfg, kind, strings.Join(names, ",")))
					if msg != "" {
						c.Violation(explore.Violation{
							Key:    fmt.Sprintf("fs=%s base=%s cfg=%s word=%s", kind, s.base, s.cfg, strings.Join(names, " ")),
							What:   fmt.Sprintf("base %s/%s on %s, reads (Get, GetAppend, scan, half-drained iterator) then %s", s.base, s.cfg, kind, msg),
							Size:   depth,
							Replay: map[string]interface{}{"kind": "slice14", "fs": kind, "base": s.base, "cfg": s.cfg, "same": s.same, "other": s.other, "new": s.newKey, "word": names, "observed": msg},
						})
						return false
					}
					if n%97 == 0 {
						c.Sample(map[string]interface{}{"fs": kind, "base": s.base, "cfg": s.cfg, "word_after_the_reads": names})
					}
					return true
				}
				for i := range c14Letters {
					if ((depth > 1 && pos == 1) || (depth == 1 && pos == 0)) && !c.Mine() {
						continue
					}
					idx[pos] = i
					if !rec(pos + 1) {
						return false
					}
				}
				return true
			}
			rec(0)
		}
	}
}

func init() {
	explore.Register(&explore.CheckInfo{
		Prop:  "C14",
		Level: "model_checking",
		Rule: "for bases S2/S3/S4/CH (ROLL: several segments, overflow chain): Get, GetAppend(nil), GetAppend(buf with spare capacity) of two keys, a fully drained scan and a half-drained iterator are taken, then every word of length <= d over {Put(same),Put(other),Put(new),Delete(same),Compact,Sync,Reopen,Close} runs; after every step every slice returned earlier is compared with its snapshot, the half-drained iterator is drained at the end (every pair must have been put), input slices are overwritten by the harness after each call and final reads must return put values. " +
			"Executed on simfs in mmap-lifetime mode (File.Slice memory is poisoned with 0xA5 on every write/truncate/close of the file), and on the real fs.OSMMap and fs.OS with SetPanicOnFault; states = distinct (file system, base, word)",
		Assumptions:   []string{"simfs's mmap-lifetime mode is the strictest FileSystem the interface allows (mapping invalidated on every growth); the real OSMMap only remaps past 1 GiB", "depth bound as reported"},
		QuickBudget:   100 * time.Second,
		ThorBudget:    25 * time.Minute,
		ASLimitMB:     1 << 20,
		Run:           runC14,
		EvalKey:       "executions",
		DistinctClass: "outcome",
		StatesKey:     "distinct:outcome",
		TransKey:      "transitions",
		TracesKey:     "executions",
	})
}
