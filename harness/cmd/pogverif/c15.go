package main

import (
	"fmt"
	"sort"
	"strings"
	"time"

	"github.com/akrylysov/pogreb"
	"github.com/akrylysov/pogreb/zzverif/explore"
	"github.com/akrylysov/pogreb/zzverif/refmodel"
	"github.com/akrylysov/pogreb/zzverif/simfs"
)

// C15: compaction reclaims space, nothing leaks, the database stays usable.

func segNames(s *explore.Sess) map[string]bool {
	m := map[string]bool{}
	for _, n := range s.FS.NamesIn(explore.DBPath) {
		if strings.HasSuffix(n, refmodel.SegmentExt) {
			m[n] = true
		}
	}
	return m
}

// dirOracle: every directory entry belongs to a live segment, the index, db metadata or the lock;
// open handles == live segments + 2 index files + lock.
func dirOracle(s *explore.Sess) string {
	live := map[string]bool{}
	segs := s.DB.VerifSegments()
	for _, sg := range segs {
		live[sg.Name] = true
	}
	for _, n := range s.FS.NamesIn(explore.DBPath) {
		switch {
		case n == "lock":
		case strings.HasSuffix(n, refmodel.SegmentExt):
			if !live[n] {
				return fmt.Sprintf("segment file %q belongs to no live segment (live segments: %v)", n, keys(live))
			}
		case strings.HasSuffix(n, refmodel.SegmentExt+".pmt"):
			if !live[strings.TrimSuffix(n, ".pmt")] {
				return fmt.Sprintf("metadata side file %q belongs to no live segment (live segments: %v)", n, keys(live))
			}
		case strings.HasSuffix(n, ".pmt") || strings.HasSuffix(n, ".pix"):
			// database / index metadata and index files (not tied to one name: a further metadata file is "database metadata")
		default:
			return fmt.Sprintf("directory entry %q belongs to no live segment, index, metadata or lock", n)
		}
	}
	for n := range live {
		if !s.FS.Exists(explore.DBPath + "/" + n) {
			return fmt.Sprintf("live segment %s has no file", n)
		}
		if h := s.FS.HandlesOf(explore.DBPath + "/" + n); h < 1 {
			return fmt.Sprintf("live segment %s has no open handle", n)
		}
	}
	if o := s.FS.OrphanHandles(); o != 0 {
		return fmt.Sprintf("%d open file handle(s) on files that were removed: a descriptor (and, memory-mapped, a mapping) leaked", o)
	}
	if max := 2*len(live) + 8; s.FS.Stats.OpenHandles > max {
		return fmt.Sprintf("%d open file handles for %d live segments (more than 2 per segment + 8): handles are not bounded by the live data", s.FS.Stats.OpenHandles, len(live))
	}
	return ""
}

func keys(m map[string]bool) []string {
	var k []string
	for x := range m {
		k = append(k, x)
	}
	sort.Strings(k)
	return k
}

type c15Space struct {
	Base, Cfg string
	Depth     int
}

// c15LargeSegments: the default thresholds (segments of at least 32 MiB with at least 50 % garbage) on segments
// that really are that large: one key overwritten 48 times with 1 MiB values, Compact, twice. After each
// Compact the directory must be bounded by the live data (2 x live + the 32 MiB below which a segment is never
// picked + slack), i.e. the arithmetic of the eligibility test must survive real sizes.
func c15LargeSegments(c *explore.Ctx) *explore.Violation {
	mk := func(msg string) *explore.Violation {
		return &explore.Violation{Key: "large-segments default thresholds", What: "default thresholds, one key overwritten 48 x 1 MiB then Compact (twice): " + msg, Size: 50,
			Replay: map[string]interface{}{"kind": "large15", "observed": msg}}
	}
	fsys := simfs.New()
	explore.PinSeed(0)
	db, err := pogreb.Open(explore.DBPath, &pogreb.Options{FileSystem: fsys})
	if err != nil {
		return mk("Open: " + err.Error())
	}
	defer db.Close()
	val := make([]byte, 1<<20)
	for cycle := 1; cycle <= 2; cycle++ {
		for i := 0; i < 48; i++ {
			val[0], val[1] = byte(cycle), byte(i)
			if err := db.Put([]byte("the-key"), val); err != nil {
				return mk("Put: " + err.Error())
			}
			c.Add("transitions", 1)
		}
		before := fsys.TotalBytes(explore.DBPath)
		cr, err := db.Compact()
		if err != nil {
			return mk("Compact: " + err.Error())
		}
		after := fsys.TotalBytes(explore.DBPath)
		c.Outcome("large_segments", fmt.Sprintf("cycle %d: %d MiB -> %d MiB, %d segments compacted", cycle, before>>20, after>>20, cr.CompactedSegments))
		if limit := int64(2<<20 + 32<<20 + 2<<20); after > limit {
			return mk(fmt.Sprintf("after Compact #%d the directory holds %d MiB for 1 MiB of live data (%d MiB before; %d segments compacted): garbage in large segments is not reclaimed", cycle, after>>20, before>>20, cr.CompactedSegments))
		}
		v, err := db.Get([]byte("the-key"))
		if err != nil || len(v) != len(val) || v[0] != byte(cycle) || v[1] != 47 {
			return mk("the value does not read back after Compact")
		}
	}
	return nil
}

// c15FailedMaintenance: "the database stays usable" and keeps reclaiming space after a maintenance call that FAILED.
// Backup resp. Compact is hit by a transient I/O error at each of its mutating file-system calls; afterwards three
// rounds of [Put(a), Put(b), Delete(a), Compact] must succeed (Compact must not be refused as busy), the directory
// oracle must hold after each step and the resource vector must not grow from round 2 to round 3; then Backup and a
// restart must work.
func c15FailedMaintenance(c *explore.Ctx) {
	for _, bc := range [][2]string{{"S2", "ROLL"}, {"E", "ROLL"}, {"S4", "ROLL"}} {
		for _, m := range []explore.Op{{Kind: explore.Backup}, {Kind: explore.Compact}} {
			if !c.Mine() {
				continue
			}
			base, err := explore.GetBase(bc[0], cfgByName(bc[1]), 0)
			if err != nil {
				c.HarnessError("%v", err)
			}
			explore.PinSeed(0)
			for n := 1; n < 200; n++ {
				if c.Expired() || c.NViolations() > 0 {
					return
				}
				done, bad := c15FailedMaintCase(c, base, m, n)
				if bad != "" {
					c.Violation(explore.Violation{Key: fmt.Sprintf("failed-maintenance base=%s cfg=%s op=%s fault@%d", bc[0], bc[1], m, n),
						What: fmt.Sprintf("base %s/%s: [Put(a)] then %s with a transient I/O error at its mutating file-system call #%d, then rounds of [Put(a) Put(b) Delete(a) Compact]: %s", bc[0], bc[1], m, n, bad), Size: n,
						Replay: map[string]interface{}{"kind": "failmaint15", "base": bc[0], "cfg": bc[1], "op": opsJSON([]explore.Op{m}), "fault_at": n, "observed": bad}})
					return
				}
				if done {
					break
				}
			}
		}
	}
}

// c15FailedMaintCase: done = the call makes fewer than n mutating file-system calls.
func c15FailedMaintCase(c *explore.Ctx, base *explore.Base, m explore.Op, n int) (bool, string) {
	s := base.NewSess()
	if err := s.OpenDB(); err != nil {
		return true, "Open: " + err.Error()
	}
	_ = s.Apply(explore.Op{Kind: explore.Put, Key: "a"})
	before := s.FS.Mutations()
	s.FS.FailAt = before + n
	_ = s.Apply(m)
	s.FS.FailAt = 0
	if s.FS.Mutations() < before+n {
		_ = s.ProtectedClose()
		return true, ""
	}
	c.Add("executions", 1)
	c.Add("failed_maintenance_probes", 1)
	c.Add("transitions", 14)
	bad := ""
	var vecs []resVec
rounds:
	for r := 1; r <= 3 && bad == ""; r++ {
		for _, o := range []explore.Op{{Kind: explore.Put, Key: "a"}, {Kind: explore.Put, Key: "b"}, {Kind: explore.Delete, Key: "a"}, {Kind: explore.Compact}} {
			if err := s.Apply(o); err != nil {
				bad = fmt.Sprintf("round %d: %s returned error: %v", r, o, err)
				break rounds
			}
			if s.Panicked != "" {
				bad = s.Panicked
				break rounds
			}
			if msg := dirOracle(s); msg != "" && m.Kind == explore.Backup {
				// (a failed Compact may leave a half-written destination segment behind: not judged here)
				bad = fmt.Sprintf("round %d after %s: %s", r, o, msg)
				break rounds
			}
		}
		vecs = append(vecs, resVec{Bytes: s.FS.TotalBytes(explore.DBPath), Files: len(s.FS.NamesIn(explore.DBPath)), Segs: len(s.DB.VerifSegments())})
	}
	if bad == "" && (vecs[2].Bytes > vecs[1].Bytes || vecs[2].Files > vecs[1].Files) {
		bad = fmt.Sprintf("the directory keeps growing: round 2 %+v, round 3 %+v", vecs[1], vecs[2])
	}
	if bad == "" {
		for _, o := range []explore.Op{{Kind: explore.Backup}, {Kind: explore.Reopen}} {
			if err := s.Apply(o); err != nil {
				bad = fmt.Sprintf("then %s returned error: %v", o, err)
				break
			}
		}
	}
	if bad == "" {
		if msg := s.Check(); msg != "" {
			bad = "after the rounds, a Backup and a restart: " + msg
		}
	}
	if s.Panicked != "" {
		bad = s.Panicked
	}
	_ = s.ProtectedClose()
	return false, bad
}

func runC15(c *explore.Ctx) {
	c15FailedMaintenance(c)
	if c.Expired() || c.NViolations() > 0 {
		return
	}
	if c.Mine() {
		c.Add("executions", 1)
		if v := c15LargeSegments(c); v != nil {
			c.Violation(*v)
			return
		}
	}
	var spaces []c15Space
	if c.Thorough() {
		spaces = []c15Space{{"E", "ROLL", 8}, {"E", "ROLL1", 8}, {"S2", "ROLL", 7}, {"E", "BIGC", 7}, {"S3", "ROLL", 6}, {"LG", "ROLL", 6}, {"RU", "ROLL", 6}, {"S4", "ROLL", 6}}
	} else {
		spaces = []c15Space{{"E", "ROLL", 4}, {"E", "ROLL1", 4}, {"S2", "ROLL", 3}, {"E", "BIGC", 4}, {"LG", "ROLL", 3}}
	}
	for _, sp := range spaces {
		if c.Expired() || c.NViolations() > 0 {
			return
		}
		base, err := explore.GetBase(sp.Base, cfgByName(sp.Cfg), 0)
		if err != nil {
			c.HarnessError("%v", err)
		}
		explore.PinSeed(0)
		letters := []explore.Op{{Kind: explore.Put, Key: "a"}, {Kind: explore.Put, Key: "b"}, {Kind: explore.Delete, Key: "a"}, {Kind: explore.Compact}, {Kind: explore.Reopen}}
		sp := sp
		enumWords(c, letters, sp.Depth, func(word []explore.Op, checkFrom int) bool {
			if c.Expired() {
				return false
			}
			if v := runWordC15(c, base, sp, word, checkFrom, 1); v != nil {
				return !c.Violation(*v)
			}
			return true
		})
		// cyclic workloads: words of length <= 4 with at least one write and one Compact, repeated
		// all cyclic words up to maxLen; one letter longer for the words that also restart (metadata written
		// in one session and consumed by a compaction in a later one needs write, write, Reopen, Compact)
		maxLen := 3
		if c.Thorough() {
			maxLen = 4
		}
		for l := 2; l <= maxLen+1; l++ {
			l := l
			enumWords(c, letters, l, func(word []explore.Op, _ int) bool {
				if c.Expired() {
					return false
				}
				hasW, hasC, hasR := false, false, false
				for _, o := range word {
					hasW = hasW || o.Kind == explore.Put || o.Kind == explore.Delete
					hasC = hasC || o.Kind == explore.Compact
					hasR = hasR || o.Kind == explore.Reopen
				}
				if !hasW || !hasC || (l > maxLen && !hasR) {
					return true
				}
				if v := runWordC15(c, base, sp, word, 1, 16); v != nil {
					return !c.Violation(*v)
				}
				return true
			})
		}
	}
}

type resVec struct {
	Bytes   int64
	Files   int
	Handles int
	Segs    int
}

func runWordC15(c *explore.Ctx, base *explore.Base, sp c15Space, word []explore.Op, checkFrom int, reps int) *explore.Violation {
	s := base.NewSess()
	kind := "word15"
	if reps > 1 {
		kind = "cycle15"
	}
	mk := func(w []explore.Op, rep int, class, msg string) *explore.Violation {
		return &explore.Violation{
			Key:    fmt.Sprintf("%s base=%s cfg=%s word=%s rep=%d", class, sp.Base, sp.Cfg, explore.WordString(w), rep),
			What:   fmt.Sprintf("after [%s] (repetition %d) from base %s/%s: %s", explore.WordString(w), rep, sp.Base, sp.Cfg, msg),
			Size:   len(w) * rep,
			Replay: map[string]interface{}{"kind": kind, "base": sp.Base, "cfg": sp.Cfg, "seed": 0, "word": opsJSON(w), "reps": rep, "observed": msg},
		}
	}
	if err := s.OpenDB(); err != nil {
		return mk(nil, 0, "open", "Open failed: "+err.Error())
	}
	defer func() {
		if s.DB != nil {
			_ = s.DB.Close()
		}
	}()
	c.Add("executions", 1)
	var vecs []resVec
	for rep := 1; rep <= reps; rep++ {
		for i, o := range word {
			before := segNames(s)
			err := s.Apply(o)
			c.Add("transitions", 1)
			w := word[:i+1]
			if err != nil {
				return mk(w, rep, "op-error:"+o.Kind.String(), fmt.Sprintf("%s returned error: %v", o, err))
			}
			if reps == 1 && i+1 < checkFrom {
				continue
			}
			c.Distinct("state", explore.Hash64(sp.Base, sp.Cfg, s.FS.Hash()))
			if o.Kind == explore.Compact {
				after := segNames(s)
				gone := 0
				for n := range before {
					if !after[n] {
						gone++
						if s.FS.Exists(explore.DBPath + "/" + n + ".pmt") {
							return mk(w, rep, "meta-left", fmt.Sprintf("compacted segment %s is gone but its side file %s.pmt is still there", n, n))
						}
					}
				}
				if gone != s.LastCompact.CompactedSegments {
					return mk(w, rep, "compacted-count", fmt.Sprintf("Compact reported %d compacted segments, %d segment files disappeared", s.LastCompact.CompactedSegments, gone))
				}
				if s.LastCompact.CompactedSegments > 0 {
					c.Add("compactions_with_work", 1)
				}
			}
			if msg := dirOracle(s); msg != "" {
				return mk(w, rep, "dir", msg)
			}
			if err := s.DB.Sync(); err != nil {
				return mk(w, rep, "sync-after:"+o.Kind.String(), fmt.Sprintf("Sync after %s returned error: %v", o, err))
			}
			if msg := s.CheckReads(); msg != "" {
				return mk(w, rep, "reads", msg)
			}
		}
		segs := s.DB.VerifSegments()
		vecs = append(vecs, resVec{Bytes: s.FS.TotalBytes(explore.DBPath), Files: len(s.FS.NamesIn(explore.DBPath)), Handles: s.FS.Stats.OpenHandles, Segs: len(segs)})
	}
	if reps > 1 {
		c.Add("cyclic_workloads", 1)
		repeat := false
		for i := 0; i < len(vecs) && !repeat; i++ {
			for j := i + 1; j < len(vecs); j++ {
				if vecs[i] == vecs[j] {
					repeat = true
					break
				}
			}
		}
		if repeat {
			c.Add("cyclic_lasso_found", 1)
		} else {
			a, b := vecs[len(vecs)/2-1], vecs[len(vecs)-1]
			if b.Bytes >= a.Bytes && b.Files >= a.Files && b.Handles >= a.Handles && (b.Bytes > a.Bytes || b.Files > a.Files || b.Handles > a.Handles) {
				return mk(word, reps, "growth", fmt.Sprintf("resources keep growing under the cyclic workload: after %d repetitions %+v, after %d repetitions %+v, no repetition of the resource vector", len(vecs)/2, a, len(vecs), b))
			}
		}
	}
	// usability at the end of the word
	tail := []explore.Op{{Kind: explore.Put, Key: "a"}, {Kind: explore.Delete, Key: "a"}, {Kind: explore.Put, Key: "b"}, {Kind: explore.Backup}, {Kind: explore.Reopen}}
	for _, o := range tail {
		if err := s.Apply(o); err != nil {
			return mk(word, reps, "usable:"+o.Kind.String(), fmt.Sprintf("then %s returned error: %v", o, err))
		}
	}
	if msg := s.Check(); msg != "" {
		return mk(word, reps, "final", "after Put/Delete/Put/Backup/Reopen: "+msg)
	}
	if reps == 1 {
		c.Sample(map[string]interface{}{"base": sp.Base, "cfg": sp.Cfg, "word": opsJSON(word)})
	} else {
		c.Sample(map[string]interface{}{"base": sp.Base, "cfg": sp.Cfg, "cyclic_word": opsJSON(word), "reps": reps, "vector_last": fmt.Sprintf("%+v", vecs[len(vecs)-1])})
	}
	return nil
}

func init() {
	explore.Register(&explore.CheckInfo{
		Prop:  "C15",
		Level: "model_checking",
		Rule: "every word of length <= d over {Put(a),Put(b),Delete(a),Compact,Reopen} from bases E/S2 under ROLL/ROLL1/BIGC; after every step: no segment file or .psg.pmt side file of a dead segment, no unknown kind of file, every live segment open, no open handle on a removed file, handles <= 2 per live segment + 8, " +
			"removed segments gone with their .pmt and count == CompactedSegments, Sync nil, reads == model; at the end Put/Delete/Backup/Close/Open nil; plus every cyclic word (>=1 write, >=1 Compact) repeated 16x: resource vector must repeat or stop growing; distinct = FS images",
		Assumptions:   []string{"'bounded forever' is decided as a lasso/no-growth criterion per cyclic workload up to the stated length, not for all workloads", "descriptor/mapping counts are simfs handle counts; real /proc counts are compared in C17"},
		QuickBudget:   100 * time.Second,
		ThorBudget:    25 * time.Minute,
		Run:           runC15,
		EvalKey:       "executions",
		DistinctClass: "state",
		StatesKey:     "distinct:state",
		TransKey:      "transitions",
		TracesKey:     "executions",
	})
	rp := func(rep map[string]interface{}) (string, error) {
		word, err := parseWord(rep["word"])
		if err != nil {
			return "", err
		}
		sp := c15Space{Base: fmt.Sprint(rep["base"]), Cfg: fmt.Sprint(rep["cfg"])}
		base, err := explore.GetBase(sp.Base, cfgByName(sp.Cfg), 0)
		if err != nil {
			return "", err
		}
		explore.PinSeed(0)
		reps := int(numField(rep, "reps"))
		if reps < 1 {
			reps = 1
		}
		c := explore.NewLocalCtx("C15")
		if v := runWordC15(c, base, sp, word, 1, reps); v != nil {
			return v.What, nil
		}
		return "", nil
	}
	replayers["word15"] = rp
	replayers["cycle15"] = rp
}
