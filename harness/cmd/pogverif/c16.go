package main

import (
	"bytes"
	"crypto/sha256"
	"fmt"
	"os"
	"path/filepath"
	"runtime/debug"
	"sort"
	"strings"
	"time"

	"github.com/akrylysov/pogreb"
	"github.com/akrylysov/pogreb/zzverif/explore"
	"github.com/akrylysov/pogreb/zzverif/hashforge"
	"github.com/akrylysov/pogreb/zzverif/simfs"
)

// C16: size limits are enforced atomically; every admissible size round-trips (also across restart
// and recovery); an empty value is distinguishable from a missing key; over-long keys never match.

func patBytes(n int, salt byte) []byte {
	b := make([]byte, n)
	for i := range b {
		b[i] = byte(i*131+int(salt)*17) ^ byte(i>>8) ^ salt
	}
	return b
}

type c16DB struct {
	fs    *simfs.FS
	cfg   explore.Config
	db    *pogreb.DB
	model map[string][]byte
}

func (d *c16DB) open() error {
	explore.PinSeed(0)
	db, err := pogreb.Open(explore.DBPath, d.cfg.Options(d.fs))
	d.db = db
	return err
}

// verify compares every read API with the model, byte-exactly.
func (d *c16DB) verify(db *pogreb.DB, when string) string {
	if int(db.Count()) != len(d.model) {
		return fmt.Sprintf("%s: Count=%d want %d", when, db.Count(), len(d.model))
	}
	for k, want := range d.model {
		got, err := db.Get([]byte(k))
		if err != nil {
			return fmt.Sprintf("%s: Get(key of %d bytes): %v", when, len(k), err)
		}
		if got == nil {
			return fmt.Sprintf("%s: Get(key of %d bytes) = nil, want a value of %d bytes", when, len(k), len(want))
		}
		if !bytes.Equal(got, want) {
			return fmt.Sprintf("%s: Get(key of %d bytes) returned %d bytes that differ from the %d bytes put", when, len(k), len(got), len(want))
		}
		ga, err := db.GetAppend([]byte(k), []byte("PX"))
		if err != nil || !bytes.Equal(ga, append([]byte("PX"), want...)) {
			return fmt.Sprintf("%s: GetAppend(key of %d bytes) wrong (err=%v, %d bytes)", when, len(k), err, len(ga))
		}
		has, err := db.Has([]byte(k))
		if err != nil || !has {
			return fmt.Sprintf("%s: Has(key of %d bytes)=%v,%v want true (value of %d bytes; an empty value must be distinguishable from a missing key)", when, len(k), has, err, len(want))
		}
	}
	seen := map[string]bool{}
	it := db.Items()
	for i := 0; i < 100000; i++ {
		k, v, err := it.Next()
		if err == pogreb.ErrIterationDone {
			break
		}
		if err != nil {
			return when + ": Next: " + err.Error()
		}
		want, ok := d.model[string(k)]
		if !ok || seen[string(k)] || !bytes.Equal(v, want) {
			return fmt.Sprintf("%s: scan returned a wrong/duplicate pair (key %d bytes, value %d bytes, known key=%v)", when, len(k), len(v), ok)
		}
		seen[string(k)] = true
	}
	if len(seen) != len(d.model) {
		return fmt.Sprintf("%s: scan returned %d keys, want %d", when, len(seen), len(d.model))
	}
	return ""
}

// c16Case: pre small records, then Put(key,value); verify now, after a clean restart and after recovery of
// the image taken while the database was still open (unclean).
func c16Case(cfg explore.Config, pre, klen, vlen int) (msg string) {
	debug.SetPanicOnFault(true)
	defer func() {
		if r := recover(); r != nil {
			msg = fmt.Sprintf("panic: %v", r)
		}
	}()
	d := &c16DB{fs: simfs.New(), cfg: cfg, model: map[string][]byte{}}
	if err := d.open(); err != nil {
		return "Open: " + err.Error()
	}
	for i := 0; i < pre; i++ {
		k, v := []byte(fmt.Sprintf("pre-key-%d", i)), []byte(fmt.Sprintf("pre-value-%d", i))
		if err := d.db.Put(k, v); err != nil {
			return "Put(pre): " + err.Error()
		}
		d.model[string(k)] = v
	}
	key, val := patBytes(klen, 0x5a), patBytes(vlen, 0xc3)
	if err := d.db.Put(key, val); err != nil {
		return fmt.Sprintf("Put(key %d bytes, value %d bytes) within the limits returned error: %v", klen, vlen, err)
	}
	d.model[string(key)] = val
	// a small record right behind it: its 6-byte length prefix starts where the big record ends (at, or a few
	// bytes before, a sector / read-buffer boundary)
	postK, postV := []byte("post-key"), []byte("post-value")
	if err := d.db.Put(postK, postV); err != nil {
		return "Put(post): " + err.Error()
	}
	d.model[string(postK)] = postV
	if m := d.verify(d.db, "right after the Put"); m != "" {
		return m
	}
	// absent key of the same length: must stay absent
	other := patBytes(klen, 0x11)
	if klen > 0 {
		if v, err := d.db.Get(other); err != nil || v != nil {
			return fmt.Sprintf("Get of an absent key of %d bytes returned %d bytes, err=%v", klen, len(v), err)
		}
		if h, _ := d.db.Has(other); h {
			return fmt.Sprintf("Has of an absent key of %d bytes is true", klen)
		}
	}
	// unclean image (taken now: lock file present), recovered by a fresh Open
	img := d.fs.Clone()
	d2 := &c16DB{fs: img, cfg: cfg, model: d.model}
	if err := d2.open(); err != nil {
		return "Open of the unclean image (recovery) failed: " + err.Error()
	}
	if m := d2.verify(d2.db, "after recovery from an unclean image"); m != "" {
		_ = d2.db.Close()
		return m
	}
	_ = d2.db.Close()
	// clean restart
	if err := d.db.Close(); err != nil {
		return "Close: " + err.Error()
	}
	if err := d.open(); err != nil {
		return "Open after a clean Close failed: " + err.Error()
	}
	if m := d.verify(d.db, "after a clean restart"); m != "" {
		_ = d.db.Close()
		return m
	}
	// delete it again: everything else stays
	if err := d.db.Delete(key); err != nil {
		return "Delete: " + err.Error()
	}
	delete(d.model, string(key))
	if m := d.verify(d.db, "after deleting the key again"); m != "" {
		_ = d.db.Close()
		return m
	}
	// the delete must also survive a recovery: its record has to be replayed after the (possibly over-sized, separately
	// placed) record it cancels, whichever segments the two were written to (seed C16-s1; fixed finding a1529f0)
	img2 := d.fs.Clone()
	d3 := &c16DB{fs: img2, cfg: cfg, model: d.model}
	if err := d3.open(); err != nil {
		return "Open of the unclean image taken after the Delete (recovery) failed: " + err.Error()
	}
	if m := d3.verify(d3.db, "after recovery from an unclean image taken after the key was deleted again"); m != "" {
		_ = d3.db.Close()
		return m
	}
	_ = d3.db.Close()
	if err := d.db.Close(); err != nil {
		return "final Close: " + err.Error()
	}
	return ""
}

// c16Overlong: stored keys of length n; probes of length 65536+n whose first n bytes equal the stored key
// and whose 32-bit hash equals the stored key's hash (the only way a narrowed uint16 length comparison
// plus a prefix comparison could match); plus plain over-long keys and over-long values.
func c16Overlong(cfg explore.Config, n int, withMaxValue bool) (msg string) {
	defer func() {
		if r := recover(); r != nil {
			msg = fmt.Sprintf("panic: %v", r)
		}
	}()
	d := &c16DB{fs: simfs.New(), cfg: cfg, model: map[string][]byte{}}
	if err := d.open(); err != nil {
		return "Open: " + err.Error()
	}
	defer func() {
		if d.db != nil {
			_ = d.db.Close()
		}
	}()
	stored := patBytes(n, 0x77)
	sval := []byte("stored-value")
	if err := d.db.Put(stored, sval); err != nil {
		return "Put(stored): " + err.Error()
	}
	d.model[string(stored)] = sval
	for i := 0; i < 3; i++ {
		k, v := []byte(fmt.Sprintf("other-%d", i)), []byte(fmt.Sprintf("ov-%d", i))
		if err := d.db.Put(k, v); err != nil {
			return "Put(other): " + err.Error()
		}
		d.model[string(k)] = v
	}
	seed := d.db.VerifHashSeed()
	target := hashforge.Sum32(stored, seed)
	var probes [][]byte
	for _, total := range []int{65536 + n, 2*65536 + n} {
		// prefix: stored key, then filler, total-4 bytes (multiple of 4 required by the forge)
		plen := total - 4
		if plen%4 != 0 || plen < n {
			continue
		}
		prefix := make([]byte, plen)
		copy(prefix, stored)
		for i := n; i < plen; i++ {
			prefix[i] = byte(i * 7)
		}
		p := hashforge.Forge(prefix, seed, target)
		if d.db.VerifHash(p) != target {
			return "harness: forged over-long key does not have the stored key's hash"
		}
		probes = append(probes, p)
	}
	probes = append(probes, patBytes(65536, 0x21), patBytes(65537, 0x22), append(append([]byte(nil), stored...), make([]byte, 65536)...))
	for _, p := range probes {
		before := d.fs.Hash()
		names := fmt.Sprint(d.fs.Names())
		what := fmt.Sprintf("over-long key of %d bytes (stored key: %d bytes, same hash=%v)", len(p), n, d.db.VerifHash(p) == target)
		if err := d.db.Put(p, []byte("x")); err == nil {
			return "Put with an " + what + " returned nil, want an error"
		}
		if d.fs.Hash() != before || fmt.Sprint(d.fs.Names()) != names {
			return "a rejected Put with an " + what + " changed the files"
		}
		if v, err := d.db.Get(p); err != nil || v != nil {
			return fmt.Sprintf("Get with an %s returned %q, err=%v; want nil,nil", what, trunc(v), err)
		}
		if v, err := d.db.GetAppend(p, []byte("PX")); err != nil || v != nil {
			return fmt.Sprintf("GetAppend with an %s returned %q, err=%v; want nil,nil", what, trunc(v), err)
		}
		if h, err := d.db.Has(p); err != nil || h {
			return fmt.Sprintf("Has with an %s returned %v, err=%v; want false", what, h, err)
		}
		if err := d.db.Delete(p); err != nil {
			return fmt.Sprintf("Delete with an %s returned error %v; want no effect", what, err)
		}
		if m := d.verify(d.db, "after Get/Has/Delete/Put with an "+what); m != "" {
			return m
		}
		if d.fs.Hash() != before {
			return "Delete with an " + what + " changed the files (it must behave as for an absent key)"
		}
	}
	// value limit
	before := d.fs.Hash()
	tooBig := make([]byte, pogreb.MaxValueLength+1)
	if err := d.db.Put([]byte("big"), tooBig); err == nil {
		return "Put with a value of MaxValueLength+1 bytes returned nil, want an error"
	}
	tooBig = nil
	if d.fs.Hash() != before {
		return "a rejected Put (value too large) changed the files"
	}
	if m := d.verify(d.db, "after a rejected Put (value too large)"); m != "" {
		return m
	}
	if withMaxValue {
		// exactly MaxValueLength must be accepted and round-trip (thorough tier: ~2 GiB of memory)
		v := make([]byte, pogreb.MaxValueLength)
		for i := 0; i < len(v); i += 4093 {
			v[i] = byte(i)
		}
		v[len(v)-1] = 0x7e
		if err := d.db.Put([]byte("max"), v); err != nil {
			return "Put with a value of exactly MaxValueLength bytes returned error: " + err.Error()
		}
		got, err := d.db.Get([]byte("max"))
		if err != nil || !bytes.Equal(got, v) {
			return fmt.Sprintf("value of exactly MaxValueLength bytes does not round-trip (err=%v, got %d bytes)", err, len(got))
		}
		got = nil
		img := d.fs.Clone()
		d2 := &c16DB{fs: img, cfg: cfg}
		if err := d2.open(); err != nil {
			return "recovery of a database holding a MaxValueLength value failed: " + err.Error()
		}
		got, err = d2.db.Get([]byte("max"))
		_ = d2.db.Close()
		if err != nil || !bytes.Equal(got, v) {
			return fmt.Sprintf("value of exactly MaxValueLength bytes is lost or damaged by recovery (err=%v, got %d bytes)", err, len(got))
		}
	}
	return ""
}

// c16Real: admissible sizes on the repository's own file systems (the default one maps files and grows the mapping):
// after pre small records, Put(key of klen bytes, value of vlen bytes); the value must read back byte-exact at once,
// after one more small Put, and after a restart; Count and Has agree. A panic or fault is a violation.
func c16Real(kind string, dir string, pre, klen, vlen int) (msg string) {
	defer func() {
		if r := recover(); r != nil {
			msg = fmt.Sprintf("panic: %v", r)
		}
	}()
	debug.SetPanicOnFault(true)
	t := &explore.RealTarget{Kind: kind, Dir: dir}
	t.Clean()
	defer t.Clean()
	opts := explore.BIGC.Options(t.FS())
	db, err := pogreb.Open(dir, opts)
	if err != nil {
		return "Open: " + err.Error()
	}
	closed := false
	defer func() {
		if !closed {
			_ = db.Close()
		}
	}()
	for i := 0; i < pre; i++ {
		if err := db.Put([]byte(fmt.Sprintf("pre-key-%d", i)), []byte(fmt.Sprintf("pre-value-%d", i))); err != nil {
			return "Put: " + err.Error()
		}
	}
	key, val := patBytes(klen, 0x31), patBytes(vlen, 0x77)
	if err := db.Put(key, val); err != nil {
		return fmt.Sprintf("Put of an admissible record returned %v", err)
	}
	check := func(db *pogreb.DB, when string, wantCount int) string {
		got, err := db.Get(key)
		if err != nil {
			return when + ": Get: " + err.Error()
		}
		if !bytes.Equal(got, val) {
			return fmt.Sprintf("%s: Get returned %d bytes (sha %x), want %d bytes (sha %x)", when, len(got), sha256.Sum256(got), len(val), sha256.Sum256(val))
		}
		if ok, err := db.Has(key); err != nil || !ok {
			return fmt.Sprintf("%s: Has=%v err=%v", when, ok, err)
		}
		if n := db.Count(); int(n) != wantCount {
			return fmt.Sprintf("%s: Count=%d want %d", when, n, wantCount)
		}
		n := 0
		it := db.Items()
		for {
			k, v, err := it.Next()
			if err == pogreb.ErrIterationDone {
				break
			}
			if err != nil {
				return when + ": Items: " + err.Error()
			}
			if bytes.Equal(k, key) {
				n++
				if !bytes.Equal(v, val) {
					return when + ": Items returned a different value for the big record"
				}
			}
		}
		if n != 1 {
			return fmt.Sprintf("%s: Items returned the key %d times", when, n)
		}
		return ""
	}
	if m := check(db, "right after the Put", pre+1); m != "" {
		return m
	}
	if err := db.Put([]byte("one-more"), []byte("x")); err != nil {
		return "Put: " + err.Error()
	}
	if m := check(db, "after one more Put", pre+2); m != "" {
		return m
	}
	closed = true
	if err := db.Close(); err != nil {
		return "Close: " + err.Error()
	}
	db, err = pogreb.Open(dir, opts)
	if err != nil {
		return "reopen: " + err.Error()
	}
	closed = false
	return check(db, "after a restart", pre+2)
}

// c16GrowPastMapping: records written where the segment file outgrows the file system's initial mapping window (1 GiB
// for fs.OSMMap). Writing a gigabyte of records is replaced by extending the cleanly closed segment sparsely to 4 KiB
// below 1 GiB (a clean Open appends at the file's length and never reads the hole); then admissible records are put
// across the boundary: each must be acknowledged and read back byte-exact at once and after a restart.
func c16GrowPastMapping(kind, dir string) (msg string) {
	defer func() {
		if r := recover(); r != nil {
			msg = fmt.Sprintf("panic: %v", r)
		}
	}()
	debug.SetPanicOnFault(true)
	t := &explore.RealTarget{Kind: kind, Dir: dir}
	t.Clean()
	defer t.Clean()
	opts := explore.BIGC.Options(t.FS())
	db, err := pogreb.Open(dir, opts)
	if err != nil {
		return "Open: " + err.Error()
	}
	if err := db.Put([]byte("first"), []byte("v")); err != nil {
		return "Put: " + err.Error()
	}
	if err := db.Close(); err != nil {
		return "Close: " + err.Error()
	}
	segs, _ := filepath.Glob(filepath.Join(dir, "*.psg"))
	if len(segs) != 1 {
		return fmt.Sprintf("harness: %d segment files", len(segs))
	}
	if err := os.Truncate(segs[0], 1<<30-4096); err != nil {
		return "harness: " + err.Error()
	}
	db, err = pogreb.Open(dir, opts)
	if err != nil {
		return "Open of the extended database: " + err.Error()
	}
	closed := false
	defer func() {
		if !closed {
			_ = db.Close()
		}
	}()
	want := map[string][]byte{"first": []byte("v")}
	check := func(when string) string {
		for k, v := range want {
			got, err := db.Get([]byte(k))
			if err != nil {
				return fmt.Sprintf("%s: Get(%s): %v", when, k, err)
			}
			if !bytes.Equal(got, v) {
				return fmt.Sprintf("%s: Get(%s) returned %d bytes (sha %x), want %d bytes (sha %x)", when, k, len(got), sha256.Sum256(got), len(v), sha256.Sum256(v))
			}
		}
		if n := int(db.Count()); n != len(want) {
			return fmt.Sprintf("%s: Count=%d want %d", when, n, len(want))
		}
		return ""
	}
	for i := 0; i < 4; i++ {
		k, v := fmt.Sprintf("across-%d", i), patBytes(3000, byte(0x40+i))
		if err := db.Put([]byte(k), v); err != nil {
			return fmt.Sprintf("Put #%d of a 3000-byte value at segment offset ~1 GiB returned %v", i+1, err)
		}
		want[k] = v
		if m := check(fmt.Sprintf("right after Put #%d at segment offset ~1 GiB", i+1)); m != "" {
			return m
		}
	}
	closed = true
	if err := db.Close(); err != nil {
		return "Close: " + err.Error()
	}
	db, err = pogreb.Open(dir, opts)
	if err != nil {
		return "reopen: " + err.Error()
	}
	closed = false
	return check("after a restart")
}

func c16RealLayer(c *explore.Ctx) {
	scratch, err := os.MkdirTemp("/dev/shm", "pogverif-c16-")
	if err != nil {
		c.HarnessError("no scratch directory: %v", err)
	}
	defer os.RemoveAll(scratch)
	vlens := []int{0, 65536, 3 << 20, 70 << 20, 130 << 20}
	if c.Thorough() {
		vlens = append(vlens, 300<<20)
	}
	for _, kind := range []string{"osmmap", "os"} {
		if c.Mine() {
			c.Add("executions", 1)
			c.Add("round_trips_real_fs", 1)
			c.Distinct("case", explore.Hash64("real-grow", kind))
			if msg := c16GrowPastMapping(kind, filepath.Join(scratch, kind+"-grow")); msg != "" {
				c.Violation(explore.Violation{
					Key:    "grow-past-mapping fs=" + kind,
					What:   fmt.Sprintf("fs=%s, segment extended sparsely to 4 KiB below 1 GiB, then four Puts of 3000-byte values: %s", kind, strings.ReplaceAll(msg, scratch, "<scratch>")),
					Size:   1,
					Replay: map[string]interface{}{"kind": "grow16", "fs": kind, "observed": msg},
				})
				return
			}
		}
		for _, pre := range []int{0, 2} {
			for _, vlen := range vlens {
				if !c.Mine() {
					continue
				}
				if c.Expired() || c.NViolations() > 0 {
					return
				}
				if vlen > 100<<20 && pre != 0 {
					continue
				}
				c.Add("executions", 1)
				c.Add("round_trips_real_fs", 1)
				c.Distinct("case", explore.Hash64("real", kind, fmt.Sprint(pre, vlen)))
				if msg := c16Real(kind, filepath.Join(scratch, fmt.Sprintf("%s-%d-%d", kind, pre, vlen)), pre, 16, vlen); msg != "" {
					c.Violation(explore.Violation{
						Key:    fmt.Sprintf("roundtrip-real fs=%s pre=%d vlen=%d", kind, pre, vlen),
						What:   fmt.Sprintf("fs=%s, %d small records then Put(key of 16 bytes, value of %d bytes): %s", kind, pre, vlen, strings.ReplaceAll(msg, scratch, "<scratch>")),
						Size:   pre,
						Replay: map[string]interface{}{"kind": "real16", "fs": kind, "pre": pre, "vlen": vlen, "observed": msg},
					})
					return
				}
			}
		}
	}
}

func runC16(c *explore.Ctx) {
	c16RealLayer(c)
	if c.Expired() || c.NViolations() > 0 {
		return
	}
	klens := []int{0, 1, 2, 255, 256, 65534, 65535}
	seg1k := explore.Config{Name: "SEG1K", MaxSeg: 1024, MinSeg: 1, MinFrag: 1e-9}
	cfgs := []explore.Config{explore.BIGC, seg1k}
	for _, cfg := range cfgs {
		for _, pre := range []int{0, 1, 2} {
			for _, klen := range klens {
				// value lengths: 0, 1, record end at a 512 / 4096+512 boundary -1/0/+1, 65535, 65536, 1 MiB
				vset := map[int]bool{0: true, 1: true, 65535: true, 65536: true, 1 << 20: true}
				used := 512 // header
				for i := 0; i < pre; i++ {
					used += 6 + len(fmt.Sprintf("pre-key-%d", i)) + len(fmt.Sprintf("pre-value-%d", i)) + 4
				}
				for _, boundary := range []int{1024, 512 + 4096, 512 + 8192, 65536 + 512} {
					v := boundary - used - 6 - klen - 4
					for _, dlt := range []int{-5, -4, -3, -2, -1, 0, 1} {
						if v+dlt >= 0 {
							vset[v+dlt] = true
						}
					}
				}
				var vlens []int
				for v := range vset {
					vlens = append(vlens, v)
				}
				sort.Ints(vlens) // (every worker must draw jobs in the same order)
				for _, vlen := range vlens {
					if !c.Mine() {
						continue
					}
					if c.Expired() || c.NViolations() > 0 {
						return
					}
					if !c.Thorough() && (vlen == 1<<20 && pre != 0) {
						continue
					}
					c.Add("executions", 1)
					c.Add("round_trips", 1)
					c.Distinct("case", explore.Hash64(cfg.Name, fmt.Sprint(pre, klen, vlen)))
					if msg := c16Case(cfg, pre, klen, vlen); msg != "" {
						c.Violation(explore.Violation{
							Key:    fmt.Sprintf("roundtrip cfg=%s pre=%d klen=%d vlen=%d", cfg.Name, pre, klen, vlen),
							What:   fmt.Sprintf("%s, %d small records then Put(key of %d bytes, value of %d bytes): %s", cfg.Name, pre, klen, vlen, msg),
							Size:   pre,
							Replay: map[string]interface{}{"kind": "size16", "cfg": cfg.Name, "pre": pre, "klen": klen, "vlen": vlen, "observed": msg},
						})
						return
					}
					if (klen+vlen)%7 == 0 {
						c.Sample(map[string]interface{}{"cfg": cfg.Name, "records_before": pre, "key_len": klen, "value_len": vlen})
					}
				}
			}
		}
		for _, n := range []int{0, 4, 8, 16, 256, 65532} {
			if !c.Mine() {
				continue
			}
			c.Add("executions", 1)
			c.Add("overlong_probes", 1)
			c.Distinct("case", explore.Hash64(cfg.Name, "overlong", fmt.Sprint(n)))
			withMax := c.Thorough() && n == 8 && cfg.Name == "BIGC"
			if msg := c16Overlong(cfg, n, withMax); msg != "" {
				c.Violation(explore.Violation{
					Key:    fmt.Sprintf("limits cfg=%s stored-key-len=%d", cfg.Name, n),
					What:   fmt.Sprintf("%s, stored key of %d bytes: %s", cfg.Name, n, msg),
					Size:   1,
					Replay: map[string]interface{}{"kind": "limit16", "cfg": cfg.Name, "n": n, "observed": msg},
				})
				return
			}
		}
	}
}

func init() {
	explore.Register(&explore.CheckInfo{
		Prop:  "C16",
		Level: "exploration",
		Rule: "boundary alphabet: key lengths {0,1,2,255,256,65534,65535} x value lengths {0,1,65535,65536,1 MiB} + the lengths that make the record end at a 512-byte / bufio-window / 64 KiB boundary -5..+1 (so that the length prefix of the following small record straddles it), each put into an empty database and after 1 and 2 small records, under the default segment size and under 1 KiB segments (record larger than the remaining space / than a whole segment): byte-exact Get/GetAppend/Has/scan/Count right after the Put, after recovery of the unclean image, after a clean restart and after deleting the key again. " +
			"Limits: keys of 65536, 65537 and 65536+n / 131072+n bytes whose first n bytes equal a stored n-byte key AND whose 32-bit hash is forged to equal the stored key's hash (n in {0,4,8,16,256,65532}; n = 0: the stored key is the empty key): Put must fail and leave file-system image, file list and Count unchanged, Get/GetAppend/Has/Delete must behave as for an absent key; value of MaxValueLength+1 rejected the same way (thorough: exactly MaxValueLength round-trips incl. recovery). On the repository's own file systems (fs.OSMMap: mapped files whose mapping grows; fs.OS): values of 0, 64 KiB, 3 MiB, 70 MiB, 130 MiB (thorough: 300 MiB) into an empty database and after 2 small records: byte-exact Get/Has/scan/Count right after the Put, after one more Put and after a restart; a panic or memory fault is a violation; plus records put across the 1 GiB offset of a segment (the initial mapping window of fs.OSMMap; the file is extended sparsely instead of written). distinct_nontrivial = distinct (config, lengths) cases",
		Assumptions:   []string{"input enumeration over a stated boundary alphabet: the numeric ranges themselves (2^16 x 2^29) are not exhausted", "content of keys/values is a fixed pattern"},
		QuickBudget:   100 * time.Second,
		ThorBudget:    25 * time.Minute,
		ASLimitMB:     65536,
		Run:           runC16,
		EvalKey:       "executions",
		DistinctClass: "case",
	})
}
