package main

import (
	"crypto/sha256"
	"fmt"
	"io"
	"os"
	"path/filepath"
	"runtime/debug"
	"sort"
	"strings"
	"time"

	"github.com/akrylysov/pogreb"
	"github.com/akrylysov/pogreb/fs"
	"github.com/akrylysov/pogreb/zzverif/explore"
	"github.com/akrylysov/pogreb/zzverif/refmodel"
	"github.com/akrylysov/pogreb/zzverif/simfs"
)

// C17: behaviour does not depend on the FileSystem implementation. Every program (word) over
// {Put(a), Put(b), Delete(a), Compact, Reopen, Backup, TornReopen(t1..t3), BigPut} is executed on fs.Mem,
// fs.OS, fs.OSMMap and simfs; the per-step observations (results of every read API, Count, scan,
// FileSize, Sync) and the segment files (names, lengths, SHA-256) after every restart and at the end
// must be identical on all four.

type fsTarget struct {
	kind string
	fsys fs.FileSystem
	dir  string
	sim  *simfs.FS
}

func newTarget(kind, scratch string, n int) *fsTarget {
	switch kind {
	case "mem":
		return &fsTarget{kind: kind, fsys: fs.Mem, dir: fmt.Sprintf("c17-%d-%d", os.Getpid(), n)}
	case "os":
		return &fsTarget{kind: kind, fsys: fs.OS, dir: filepath.Join(scratch, fmt.Sprintf("o%d", n))}
	case "osmmap":
		return &fsTarget{kind: kind, fsys: fs.OSMMap, dir: filepath.Join(scratch, fmt.Sprintf("m%d", n))}
	}
	s := simfs.New()
	return &fsTarget{kind: kind, fsys: s, dir: "db", sim: s}
}

func (t *fsTarget) cleanup() {
	switch t.kind {
	case "os", "osmmap":
		_ = os.RemoveAll(t.dir)
		matches, _ := filepath.Glob(t.dir + "-bak*")
		for _, m := range matches {
			_ = os.RemoveAll(m)
		}
	case "mem":
		if ents, err := t.fsys.ReadDir(t.dir); err == nil {
			for _, e := range ents {
				_ = t.fsys.Remove(filepath.Join(t.dir, e.Name()))
			}
		}
	}
}

// readFile reads a whole file through the file system under test.
func (t *fsTarget) readFile(dir, name string) ([]byte, error) {
	f, err := t.fsys.OpenFile(filepath.Join(dir, name), os.O_RDONLY, 0640)
	if err != nil {
		return nil, err
	}
	defer f.Close()
	return io.ReadAll(f)
}

// segments returns "name:len:sha256" of every segment file of dir, sorted.
func (t *fsTarget) segments(dir string) (string, string) {
	ents, err := t.fsys.ReadDir(dir)
	if err != nil {
		return "", "ReadDir: " + err.Error()
	}
	var l []string
	newest := ""
	for _, e := range ents {
		n := e.Name()
		if !strings.HasSuffix(n, refmodel.SegmentExt) {
			continue
		}
		data, err := t.readFile(dir, n)
		if err != nil {
			return "", "reading " + n + ": " + err.Error()
		}
		l = append(l, fmt.Sprintf("%s:%d:%x", n, len(data), sha256.Sum256(data)))
	}
	sort.Strings(l)
	_ = newest
	return strings.Join(l, " "), ""
}

// newestSegment returns the name of the segment with the highest sequence id.
func (t *fsTarget) newestSegment() string {
	ents, err := t.fsys.ReadDir(t.dir)
	if err != nil {
		return ""
	}
	best, bestSeq := "", -1
	for _, e := range ents {
		n := e.Name()
		if !strings.HasSuffix(n, refmodel.SegmentExt) {
			continue
		}
		var id, seq int
		if _, err := fmt.Sscanf(n, "%05d-%d.psg", &id, &seq); err == nil && seq > bestSeq {
			best, bestSeq = n, seq
		}
	}
	return best
}

func (t *fsTarget) appendTo(name string, tail []byte) error {
	f, err := t.fsys.OpenFile(filepath.Join(t.dir, name), os.O_RDWR, 0640)
	if err != nil {
		return err
	}
	st, err := f.Stat()
	if err != nil {
		_ = f.Close()
		return err
	}
	if _, err := f.WriteAt(tail, st.Size()); err != nil {
		_ = f.Close()
		return err
	}
	return f.Close()
}

func (t *fsTarget) touchLock() error {
	f, err := t.fsys.OpenFile(filepath.Join(t.dir, "lock"), os.O_CREATE|os.O_RDWR, 0644)
	if err != nil {
		return err
	}
	return f.Close()
}

type c17Letter struct {
	Name string
	Kind string // put del compact reopen backup torn bigput
	Key  string
	Tail int
}

var c17Letters = []c17Letter{
	{"Put(a)", "put", "a", 0}, {"Put(b)", "put", "b", 0}, {"Delete(a)", "del", "a", 0}, {"Compact", "compact", "", 0}, {"Reopen", "reopen", "", 0},
	{"Backup", "backup", "", 0}, {"Torn(3 bytes of a record)", "torn", "", 0}, {"Torn(record with bad CRC)", "torn", "", 1}, {"Torn(600 zero bytes)", "torn", "", 2}, {"BigPut(c)", "bigput", "c", 0}, {"HugePut(b)", "hugeput", "b", 0},
	{"Torn(leftovers of an interrupted recovery: *.bac files exist)", "torn", "", 3},
}

func tornTail(i int, keyA []byte) []byte {
	rec := refmodel.EncodeRecord(keyA, []byte("tail"), false)
	switch i {
	case 0:
		return rec[:3]
	case 1:
		bad := append([]byte(nil), rec...)
		bad[len(bad)-1] ^= 0x40
		return bad
	}
	return make([]byte, 600)
}

// runC17Word executes the word on one target and returns the observation trace (one string per step).
func runC17Word(t *fsTarget, cfg explore.Config, keys map[string][]byte, word []c17Letter) (trace []string) {
	defer func() {
		if r := recover(); r != nil {
			trace = append(trace, fmt.Sprintf("PANIC: %v", r))
		}
	}()
	debug.SetPanicOnFault(true)
	explore.PinSeed(0)
	db, err := pogreb.Open(t.dir, cfg.Options(t.fsys))
	if err != nil {
		return []string{"Open: " + err.Error()}
	}
	// preamble: six records (two full segments under ROLL), so that the word's overwrites and deletes create
	// garbage that compaction removes, and the long-lived iterator below has records of several segments buffered
	for i, r := range []string{"a", "b", "c", "d", "p5", "p6"} {
		k := keys[r]
		if k == nil {
			k = []byte("pre-key-" + r)
		}
		if err := db.Put(k, []byte(fmt.Sprintf("pre%d", i))); err != nil {
			return []string{"preamble Put: " + err.Error()}
		}
	}
	// an iterator that lives across the steps: one Next per observation (what it has buffered must stay valid
	// through compaction, growth and so on, identically on every file system)
	longIt := db.Items()
	closed := false
	defer func() {
		if !closed {
			_ = db.Close()
		}
	}()
	nval := 0
	nbak := 0
	es := func(err error) string {
		if err == nil {
			return "nil"
		}
		// error texts of the file systems differ legitimately (paths, errno wording): only error-or-nil is compared
		return "ERR"
	}
	observe := func(step string) {
		var o []string
		o = append(o, step)
		for _, r := range []string{"a", "b", "c"} {
			v, err := db.Get(keys[r])
			h, err2 := db.Has(keys[r])
			vs := string(v)
			if len(vs) > 16 {
				vs = fmt.Sprintf("%d bytes %x", len(vs), sha256.Sum256(v))
			}
			o = append(o, fmt.Sprintf("Get(%s)=%q/%v/%s Has=%v/%s", r, vs, v != nil, es(err), h, es(err2)))
		}
		o = append(o, fmt.Sprintf("Count=%d", db.Count()))
		var pairs []string
		it := db.Items()
		for i := 0; i < 1000; i++ {
			k, v, err := it.Next()
			if err == pogreb.ErrIterationDone {
				break
			}
			if err != nil {
				pairs = append(pairs, "ERR")
				break
			}
			pairs = append(pairs, fmt.Sprintf("%x=%x", k, sha256.Sum256(v)))
		}
		sort.Strings(pairs)
		o = append(o, "scan="+strings.Join(pairs, ","))
		if k, v, err := longIt.Next(); err == nil {
			o = append(o, fmt.Sprintf("long-lived iterator: %x=%x", k, sha256.Sum256(v)))
		} else if err == pogreb.ErrIterationDone {
			o = append(o, "long-lived iterator: done")
		} else {
			o = append(o, "long-lived iterator: ERR")
		}
		sz, err := db.FileSize()
		o = append(o, fmt.Sprintf("FileSize=%d/%s", sz, es(err)))
		o = append(o, "Sync="+es(db.Sync()))
		trace = append(trace, strings.Join(o, " | "))
	}
	segs := func(step string) {
		s, e := t.segments(t.dir)
		trace = append(trace, step+" segments: "+s+e)
	}
	observe("open")
	for i, l := range word {
		step := fmt.Sprintf("step %d %s", i+1, l.Name)
		switch l.Kind {
		case "put":
			nval++
			step += " -> " + es(db.Put(keys[l.Key], []byte(fmt.Sprintf("v%03d", nval))))
		case "bigput":
			// a value larger than the bufio window and than several sectors; grows the file (and mapping) in one step
			nval++
			big := make([]byte, 70000)
			for j := range big {
				big[j] = byte(j*7 + nval)
			}
			step += " -> " + es(db.Put(keys[l.Key], big))
		case "hugeput":
			// larger than any plausible initial mapping window below the real one: the mapping has to grow by more than a doubling
			nval++
			huge := make([]byte, 3<<20+17)
			for j := 0; j < len(huge); j += 509 {
				huge[j] = byte(j>>9 + nval)
			}
			step += " -> " + es(db.Put(keys[l.Key], huge))
		case "del":
			step += " -> " + es(db.Delete(keys[l.Key]))
		case "compact":
			cr, err := db.Compact()
			step += fmt.Sprintf(" -> %s compacted=%d reclaimedRecords=%d reclaimedBytes=%d", es(err), cr.CompactedSegments, cr.ReclaimedRecords, cr.ReclaimedBytes)
		case "backup":
			nbak++
			bdir := fmt.Sprintf("%s-bak%d", t.dir, nbak)
			err := db.Backup(bdir)
			step += " -> " + es(err)
			if err == nil {
				s, e := t.segments(bdir)
				step += " backup segments: " + s + e
			}
		case "reopen", "torn":
			if err := db.Close(); err != nil {
				trace = append(trace, step+" Close: ERR")
				closed = true
				return
			}
			closed = true
			segs(step + " after Close")
			if l.Kind == "torn" {
				seg := t.newestSegment()
				if seg == "" {
					trace = append(trace, step+" no segment")
					return
				}
				if err := t.touchLock(); err != nil {
					trace = append(trace, step+" lock: "+err.Error())
					return
				}
				if l.Tail == 3 {
					// what a recovery that was interrupted after moving the index and metadata files aside leaves behind:
					// <name>.bac next to (re-created) files of the original names. The next recovery renames onto them.
					for _, n := range []string{"main.pix", "overflow.pix", "index.pmt", "db.pmt"} {
						data, err := t.readFile(t.dir, n)
						if err != nil {
							continue
						}
						f, err := t.fsys.OpenFile(filepath.Join(t.dir, n+".bac"), os.O_CREATE|os.O_RDWR|os.O_TRUNC, 0640)
						if err != nil {
							trace = append(trace, step+" creating .bac: "+err.Error())
							return
						}
						if _, err := f.Write(data[:len(data)/2]); err != nil {
							_ = f.Close()
							trace = append(trace, step+" writing .bac: "+err.Error())
							return
						}
						_ = f.Close()
					}
				} else if err := t.appendTo(seg, tornTail(l.Tail, keys["a"])); err != nil {
					trace = append(trace, step+" append: "+err.Error())
					return
				}
			}
			db, err = pogreb.Open(t.dir, cfg.Options(t.fsys))
			if err != nil {
				trace = append(trace, step+" Open: ERR")
				return
			}
			closed = false
			longIt = db.Items()
			segs(step + " after Open")
		}
		observe(step)
	}
	if err := db.Close(); err != nil {
		trace = append(trace, "final Close: ERR")
	}
	closed = true
	segs("end")
	return trace
}

// c17Giant: one fixed program with a 130 MiB value (far beyond any plausible initial mapping window below the
// real one, and more than a doubling of the file): put, read back, restart, read back - on all four file systems.
func c17Giant(c *explore.Ctx, scratch string, keys map[string][]byte) *explore.Violation {
	giant := make([]byte, 130<<20)
	for i := 0; i < len(giant); i += 4099 {
		giant[i] = byte(i >> 12)
	}
	run := func(kind string, n int) (tr []string) {
		defer func() {
			if r := recover(); r != nil {
				tr = append(tr, fmt.Sprintf("PANIC: %v", r))
			}
		}()
		debug.SetPanicOnFault(true)
		t := newTarget(kind, scratch, n)
		defer t.cleanup()
		explore.PinSeed(0)
		db, err := pogreb.Open(t.dir, explore.BIGC.Options(t.fsys))
		if err != nil {
			return []string{"Open: ERR"}
		}
		obs := func(when string) {
			v, err := db.Get(keys["b"])
			s, _ := db.Get(keys["a"])
			tr = append(tr, fmt.Sprintf("%s: giant value %d bytes %x err=%v; small value %q; Count=%d", when, len(v), sha256.Sum256(v), err != nil, s, db.Count()))
		}
		_ = db.Put(keys["a"], []byte("small"))
		tr = append(tr, fmt.Sprint("Put(giant) error=", db.Put(keys["b"], giant) != nil))
		obs("after the Put")
		_ = db.Put(keys["a"], []byte("small2"))
		obs("after one more Put")
		if err := db.Close(); err != nil {
			return append(tr, "Close: ERR")
		}
		db, err = pogreb.Open(t.dir, explore.BIGC.Options(t.fsys))
		if err != nil {
			return append(tr, "reopen: ERR")
		}
		obs("after a restart")
		_ = db.Close()
		return tr
	}
	ref := run("sim", 1)
	for i, kind := range []string{"mem", "os", "osmmap"} {
		c.Add("executions", 1)
		if d := firstDiff(ref, run(kind, 2+i)); d != "" {
			return &explore.Violation{Key: "giant-value fs=" + kind, What: "program [Put(a), Put(b, 130 MiB), Put(a), Reopen] behaves differently on fs=" + kind + " than on simfs: " + d, Size: 1,
				Replay: map[string]interface{}{"kind": "giant17", "fs": kind, "observed": d}}
		}
	}
	return nil
}

func runC17(c *explore.Ctx) {
	scratch, err := os.MkdirTemp("/dev/shm", "pogverif-c17-")
	if err != nil {
		c.HarnessError("no scratch directory: %v", err)
	}
	defer os.RemoveAll(scratch)
	base, err := explore.GetBase("E", explore.BIGC, 0)
	if err != nil {
		c.HarnessError("%v", err)
	}
	keys := base.Keys
	if c.Mine() {
		if v := c17Giant(c, scratch, keys); v != nil {
			c.Violation(*v)
			return
		}
	}
	if c.Mine() {
		// records put across the 1 GiB offset of a segment (beyond fs.OSMMap's initial mapping window): same outcome on
		// the mapped and the plain OS file system (the file is extended sparsely, see c16GrowPastMapping)
		c.Add("executions", 2)
		a, b := c16GrowPastMapping("os", filepath.Join(scratch, "grow-os")), c16GrowPastMapping("osmmap", filepath.Join(scratch, "grow-mm"))
		if a != b {
			d := strings.ReplaceAll(fmt.Sprintf("fs=os: %q; fs=osmmap: %q", a, b), scratch, "<scratch>")
			c.Violation(explore.Violation{Key: "grow-past-mapping", What: "program [Put, Close, segment extended sparsely to 4 KiB below 1 GiB, Open, four Puts of 3000-byte values, Reopen] behaves differently on fs.OS and fs.OSMMap (empty = everything read back): " + d, Size: 1,
				Replay: map[string]interface{}{"kind": "grow17", "observed": d}})
			return
		}
	}
	c17Conc(c, scratch)
	if c.Expired() || c.NViolations() > 0 {
		return
	}
	depth := 3
	if c.Thorough() {
		depth = 4
	}
	// BIG2 lets the 70000-byte record fit a segment while still rolling over (2 such records per segment)
	big2 := explore.Config{Name: "BIG2", MaxSeg: 512 + 150000, MinSeg: 1, MinFrag: 1e-9}
	cfgs := []explore.Config{explore.BIGC, explore.ROLL, big2}
	kinds := []string{"sim", "mem", "os", "osmmap"}
	n := 0
	for _, cfg := range cfgs {
		letters := c17Letters
		if cfg.Name == "BIG2" {
			letters = append(append([]c17Letter(nil), c17Letters[:10]...), c17Letters[11]) // the 3 MiB record is exercised under the default segment size only
		}
		if cfg.Name == "ROLL" {
			letters = append(append([]c17Letter(nil), c17Letters[:9]...), c17Letters[11]) // the big record does not fit a ROLL segment on any file system (same error everywhere, nothing to compare)
		}
		idx := make([]int, depth)
		var rec func(pos int) bool
		rec = func(pos int) bool {
			if c.Expired() || c.NViolations() > 0 {
				return false
			}
			if pos == depth {
				word := make([]c17Letter, depth)
				var names []string
				for i, x := range idx {
					word[i] = letters[x]
					names = append(names, letters[x].Name)
				}
				var ref []string
				c.Add("programs", 1)
				for _, kind := range kinds {
					n++
					t := newTarget(kind, scratch, n)
					tr := runC17Word(t, cfg, keys, word)
					t.cleanup()
					c.Add("executions", 1)
					c.Add("transitions", int64(depth))
					if kind == kinds[0] {
						ref = tr
						c.Distinct("outcome", explore.Hash64(cfg.Name, strings.Join(tr, "\n")))
						continue
					}
					if d := firstDiff(ref, tr); d != "" {
						// fs.Mem's ReadDir order comes from Go's map iteration: re-run before believing a Mem mismatch
						stable := true
						for i := 0; i < 4 && stable; i++ {
							n++
							t2 := newTarget(kind, scratch, n)
							tr2 := runC17Word(t2, cfg, keys, word)
							t2.cleanup()
							if firstDiff(ref, tr2) == "" {
								stable = false
							}
						}
						if !stable {
							c.Outcome("flaky_mismatch", kind)
							continue
						}
						c.Violation(explore.Violation{
							Key:    fmt.Sprintf("diff fs=%s cfg=%s word=%s", kind, cfg.Name, strings.Join(names, " ")),
							What:   fmt.Sprintf("program [%s] under %s behaves differently on fs=%s than on simfs: %s", strings.Join(names, ", "), cfg.Name, kind, d),
							Size:   depth,
							Replay: map[string]interface{}{"kind": "diff17", "cfg": cfg.Name, "word": names, "fs": kind, "observed": d},
						})
						return false
					}
				}
				c.Sample(map[string]interface{}{"cfg": cfg.Name, "program": names, "steps_observed": len(ref)})
				return true
			}
			for i := range letters {
				if pos == 1 && !c.Mine() {
					continue
				}
				idx[pos] = i
				if !rec(pos + 1) {
					return false
				}
			}
			return true
		}
		rec(0)
	}
}

func firstDiff(a, b []string) string {
	for i := 0; i < len(a) || i < len(b); i++ {
		var x, y string
		if i < len(a) {
			x = a[i]
		}
		if i < len(b) {
			y = b[i]
		}
		if x != y {
			// show the differing fields only
			xs, ys := strings.Split(x, " | "), strings.Split(y, " | ")
			var d []string
			for j := 0; j < len(xs) || j < len(ys); j++ {
				var p, q string
				if j < len(xs) {
					p = xs[j]
				}
				if j < len(ys) {
					q = ys[j]
				}
				if p != q {
					d = append(d, fmt.Sprintf("simfs: %q, this fs: %q", p, q))
				}
			}
			head := ""
			if len(xs) > 0 {
				head = xs[0]
			}
			s := fmt.Sprintf("observation %d (%s): %s", i, head, strings.Join(d, "; "))
			if len(s) > 1500 {
				s = s[:1500] + "..."
			}
			return s
		}
	}
	return ""
}

func init() {
	explore.Register(&explore.CheckInfo{
		Prop:  "C17",
		Level: "model_checking",
		Rule: "every program of length d over {Put(a),Put(b),Delete(a),Compact,Reopen,Backup,TornReopen x3 (3 bytes of a record / a record with a bad CRC / 600 zero bytes appended to the newest segment through the file system under test, lock file re-created),BigPut (70000-byte value: the file and its mapping grow in one step)} under BIGC, ROLL and a 150 KB-segment configuration is executed on simfs, fs.Mem, fs.OS and fs.OSMMap; " +
			"after every step Get/Has of three keys, Count, a full scan, FileSize and Sync are called; error-or-nil and all returned bytes, and names/lengths/SHA-256 of the segment files (and of the backup's) after every Close, Open and at the end must be identical on all four file systems; states = distinct observation traces; plus one fixed program with a 130 MiB value (put, read back, one more Put, restart, read back) on all four",
		Assumptions:   []string{"error texts are not compared (only error-or-nil)", "a mismatch involving fs.Mem is re-run 4x and reported only if it persists (Go map iteration order in fs.Mem's ReadDir)", "hash seed pinned so that index shapes are identical"},
		QuickBudget:   130 * time.Second,
		ThorBudget:    30 * time.Minute,
		ASLimitMB:     1 << 20,
		Run:           runC17,
		EvalKey:       "executions",
		DistinctClass: "outcome",
		StatesKey:     "distinct:outcome",
		TransKey:      "transitions",
		TracesKey:     "programs",
	})
}
