package main

import (
	"fmt"
	"os"
	"path/filepath"
	"strings"
	"time"

	"github.com/akrylysov/pogreb/zzverif/explore"
)

// C17, concurrent layer. Two or three threads call the database while every file-system call it makes is a
// scheduling point (before the call, and once more after calls that hand bytes to the caller). The schedules are
// enumerated on simfs behind the YieldFS wrapper (preemption-bounded, then unbounded); every complete execution
// must be linearizable, and its choice sequence is then replayed on fs.Mem, fs.OS and fs.OSMMap behind the same
// wrapper: the same interleaving of the database's file-system calls must be followable there (same scheduling
// points) and must give the same results of every call and the same final contents.

var c17Kinds = []string{"mem", "os", "osmmap"}

func c17ConcScenarios(thorough bool) []*explore.Scenario {
	g, h, p, d := func(k string) explore.Op { return op(explore.Get, k) }, func(k string) explore.Op { return op(explore.Has, k) }, func(k string) explore.Op { return op(explore.Put, k) }, func(k string) explore.Op { return op(explore.Delete, k) }
	type fam struct {
		name    string
		threads []explore.ThreadProg
	}
	fams := []fam{
		{"RR", []explore.ThreadProg{{g("a")}, {g("b")}}},
		{"RRh", []explore.ThreadProg{{g("a"), h("b")}, {g("b"), g("a")}}},
		{"RO", []explore.ThreadProg{{g("a")}, {g("c")}}},
		{"RA", []explore.ThreadProg{{op(explore.GetAppend, "a")}, {op(explore.GetAppend, "b")}}},
		{"RS", []explore.ThreadProg{{op(explore.Scan, "")}, {g("a")}}}, // (S2 only: a scan of the 33-key chain has too many calls)
		{"RW", []explore.ThreadProg{{g("a"), g("b")}, {p("b")}}},
		{"RD", []explore.ThreadProg{{g("a")}, {d("a")}}},
	}
	if thorough {
		fams = append(fams,
			fam{"RRW", []explore.ThreadProg{{g("a")}, {g("b")}, {p("a")}}},
			fam{"RRR", []explore.ThreadProg{{g("a")}, {g("b")}, {h("a")}}},
			fam{"SS", []explore.ThreadProg{{op(explore.Scan, "")}, {op(explore.Scan, "")}}},
			fam{"WW", []explore.ThreadProg{{p("a"), g("b")}, {p("b"), g("a")}}},
		)
	}
	var scs []*explore.Scenario
	for _, bc := range [][2]string{{"CH", "BIGC"}, {"S2", "ROLL"}} {
		for _, f := range fams {
			if bc[0] == "CH" && f.name == "RS" {
				continue
			}
			if bc[0] == "CH" {
				// roles of the chained base: a, b = keys of the head bucket, c = a key of its overflow bucket (one segment file)
				var ts []explore.ThreadProg
				for _, t := range f.threads {
					var w explore.ThreadProg
					for _, o := range t {
						if o.Key != "" {
							o.Key = map[string]string{"a": "h0", "b": "h1", "c": "o0"}[o.Key]
						}
						w = append(w, o)
					}
					ts = append(ts, w)
				}
				f.threads = ts
			}
			bound := 3
			if thorough {
				bound = -1
			}
			scs = append(scs, &explore.Scenario{Name: "FS-" + f.name + "-" + bc[0], Base: bc[0], Cfg: bc[1], Threads: f.threads, WrapFS: "sim", Bound: bound, NoPrivateQuiet: false})
		}
	}
	return scs
}

// c17ConcCheck: linearizability on the reference run, then the differential replays.
func c17ConcCheck(c *explore.Ctx, base *explore.Base, sc *explore.Scenario, scratch string) func(r *explore.ConcRun) (string, string) {
	lin := linCheck(base)
	return func(r *explore.ConcRun) (string, string) {
		if cl, m := lin(r); m != "" {
			return cl, "on simfs: " + m
		}
		want := r.Signature()
		for _, kind := range c17Kinds {
			sc2 := *sc
			sc2.WrapFS = kind
			sc2.Target = &explore.RealTarget{Kind: kind, Dir: filepath.Join(scratch, "conc-"+kind)}
			if kind == "mem" {
				sc2.Target.Dir = fmt.Sprintf("c17conc-%d", os.Getpid())
			}
			r2 := explore.RunScenario(&sc2, base, r.X.Choices, false)
			c.Add("differential_replays", 1)
			x := r2.X
			switch {
			case r2.OpenErr != "":
				return "fs-differs:" + kind, "on fs=" + kind + " Open failed: " + strings.ReplaceAll(r2.OpenErr, scratch, "<scratch>")
			case x.Panic != "":
				return "fs-differs:" + kind, "on fs=" + kind + " the same schedule panics in thread " + x.PanicThread + ": " + strings.SplitN(x.Panic, "\n", 2)[0]
			case x.Deadlock != "":
				return "fs-differs:" + kind, "on fs=" + kind + " the same schedule deadlocks: " + x.Deadlock
			case x.Divergence != "":
				return "fs-differs:" + kind, "on fs=" + kind + " the schedule cannot be followed (the database makes different file-system calls there): " + x.Divergence
			case x.Horizon:
				return "fs-differs:" + kind, "on fs=" + kind + " the same schedule does not finish"
			}
			if got := r2.Signature(); got != want {
				w, g := strings.SplitN(want, "|", 2), strings.SplitN(got, "|", 2)
				if w[0] != g[0] {
					return "fs-differs:" + kind, fmt.Sprintf("the same interleaving of file-system calls gives different results of the calls (thread.op=value/found/n/pairs): simfs %s, fs=%s %s", w[0], kind, g[0])
				}
				return "fs-differs:" + kind, fmt.Sprintf("the same interleaving of file-system calls leaves different contents: simfs %s, fs=%s %s", w[1], kind, g[1])
			}
		}
		return "", ""
	}
}

func c17Conc(c *explore.Ctx, scratch string) {
	// a fixed share of the budget: the sequential differential needs the rest
	old := c.Deadline
	share := 25 * time.Second
	if c.Thorough() {
		share = 8 * time.Minute
	}
	if d := time.Now().Add(share); d.Before(old) {
		c.Deadline = d
	}
	defer func() { c.Deadline = old }()
	runScenarioSet(c, c17ConcScenarios(c.Thorough()), func(base *explore.Base, sc *explore.Scenario) func(r *explore.ConcRun) (string, string) {
		return c17ConcCheck(c, base, sc, scratch)
	})
}
