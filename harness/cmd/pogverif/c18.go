package main

import (
	"bytes"
	"crypto/sha256"
	"encoding/gob"
	"encoding/hex"
	"encoding/json"
	"fmt"
	"os"
	"path/filepath"
	"regexp"
	"sort"
	"strings"
	"time"

	"github.com/akrylysov/pogreb"
	"github.com/akrylysov/pogreb/zzverif/explore"
	"github.com/akrylysov/pogreb/zzverif/refmodel"
	"github.com/akrylysov/pogreb/zzverif/simfs"
)

// C18: the on-disk format stays the documented format version 2.
// Read side: every directory of the golden corpus (/verif/golden, written ONCE by the pinned commit,
// see tools/golden/gen.sh) is opened by the current build: clean ones must open without recovery,
// all must show exactly the recorded contents, pass the structural walk, accept a further
// write/restart round and a second recovery.
// Write side: after every history of a C01-like word space (chained/split/rolled bases) and a clean
// Close, an independent reader written from docs/design.md must account for every byte of every
// segment, segment names must match %05d-%d.psg with distinct sequence ids, replay in sequence order
// must equal the model, an independent decode of main.pix / overflow.pix must yield exactly the slots
// of the index dump, and the gob metadata files must decode into independently declared structs of
// the pinned field names with the values of the dump.

type goldenEntry struct {
	Clean    bool              `json:"clean"`
	Note     string            `json:"note"`
	Contents map[string]string `json:"contents"`
	Count    int               `json:"count"`
}

// independently declared metadata structs (field names of the pinned version; gob matches by name)
type v2IndexMeta struct {
	Level               uint8
	NumKeys             uint32
	NumBuckets          uint32
	SplitBucketIndex    uint32
	FreeOverflowBuckets []int64
}

type v2SegmentMeta struct {
	Full          bool
	PutRecords    uint32
	DeleteRecords uint32
	DeletedKeys   uint32
	DeletedBytes  uint32
}

type v2DBMeta struct {
	HashSeed uint32
}

func decodeGobFile(data []byte, v interface{}) error {
	if len(data) < refmodel.HeaderSize || !bytes.Equal(data[:8], refmodel.Signature) {
		return fmt.Errorf("no format header")
	}
	if data[8] != refmodel.FormatVersion || data[9] != 0 || data[10] != 0 || data[11] != 0 {
		return fmt.Errorf("format version field is not 2")
	}
	return gob.NewDecoder(bytes.NewReader(data[refmodel.HeaderSize:])).Decode(v)
}

func loadGolden(dir string) (*simfs.FS, error) {
	img := simfs.New()
	ents, err := os.ReadDir(dir)
	if err != nil {
		return nil, err
	}
	for _, e := range ents {
		data, err := os.ReadFile(filepath.Join(dir, e.Name()))
		if err != nil {
			return nil, err
		}
		img.SetBytes(explore.DBPath+"/"+e.Name(), data)
	}
	return img, nil
}

func contentsOf(db *pogreb.DB) (map[string]string, string) {
	m := map[string]string{}
	it := db.Items()
	for i := 0; i < 1000000; i++ {
		k, v, err := it.Next()
		if err == pogreb.ErrIterationDone {
			break
		}
		if err != nil {
			return nil, "Next: " + err.Error()
		}
		hk := hex.EncodeToString(k)
		if _, dup := m[hk]; dup {
			return nil, "scan returned key " + hk + " twice"
		}
		s := sha256.Sum256(v)
		m[hk] = hex.EncodeToString(s[:])
	}
	return m, ""
}

func diffContents(want, got map[string]string) string {
	var d []string
	for k, v := range want {
		if g, ok := got[k]; !ok {
			d = append(d, "missing key "+shortHex(k))
		} else if g != v {
			d = append(d, "wrong value for key "+shortHex(k))
		}
	}
	for k := range got {
		if _, ok := want[k]; !ok {
			d = append(d, "unexpected key "+shortHex(k))
		}
	}
	sort.Strings(d)
	if len(d) > 5 {
		d = append(d[:5], fmt.Sprintf("... %d more", len(d)-5))
	}
	return strings.Join(d, "; ")
}

func shortHex(h string) string {
	if len(h) > 24 {
		return h[:24] + "...(" + fmt.Sprint(len(h)/2) + " bytes)"
	}
	return h
}

func goldenCheck(c *explore.Ctx, name string, e *goldenEntry, dir string) (msg string) {
	defer func() {
		if r := recover(); r != nil {
			msg = fmt.Sprintf("panic: %v", r)
		}
	}()
	img, err := loadGolden(dir)
	if err != nil {
		c.HarnessError("golden corpus: %v", err)
	}
	if img.Exists(explore.DBPath+"/lock") == e.Clean {
		c.HarnessError("golden corpus %s: lock file presence does not match the manifest", name)
	}
	// the independent reader must accept what the pinned version wrote
	if d := refmodel.ReplayDir(explore.SegmentFiles(img)); d.Err != "" {
		c.HarnessError("golden corpus %s: independent replay: %s", name, d.Err)
	}
	img.Record = true
	cfg := explore.BIGC
	explore.PinSeed(12345) // must not matter: the seed of a non-empty database comes from db.pmt / is re-drawn by recovery
	db, err := pogreb.Open(explore.DBPath, cfg.Options(img))
	if err != nil {
		return "Open failed: " + err.Error()
	}
	closed := false
	defer func() {
		if !closed {
			_ = db.Close()
		}
	}()
	ran := explore.RanRecovery(img.Log)
	if e.Clean && ran {
		return "a cleanly closed directory of the pinned version was opened WITH recovery"
	}
	if !e.Clean && !ran {
		return "an unclean directory of the pinned version was opened WITHOUT recovery"
	}
	if int(db.Count()) != e.Count {
		return fmt.Sprintf("Count=%d, the pinned version wrote %d keys", db.Count(), e.Count)
	}
	got, m := contentsOf(db)
	if m != "" {
		return m
	}
	if d := diffContents(e.Contents, got); d != "" {
		return "contents differ from what the pinned version wrote: " + d
	}
	for hk, hv := range e.Contents {
		k, _ := hex.DecodeString(hk)
		v, err := db.Get(k)
		if err != nil || v == nil {
			return fmt.Sprintf("Get(%s) = nil, err=%v", shortHex(hk), err)
		}
		s := sha256.Sum256(v)
		if hex.EncodeToString(s[:]) != hv {
			return "Get(" + shortHex(hk) + ") returned a different value than the pinned version wrote"
		}
	}
	vi, err := db.VerifIndex()
	if err != nil {
		return "index walk: " + err.Error()
	}
	if m := explore.StructuralInvariant(vi, db.VerifSegments(), img, db.VerifHashSeed(), e.Count); m != "" {
		return "index of the opened directory is inconsistent: " + m
	}
	// life goes on: a write, a delete, a clean restart, then an unclean one
	if err := db.Put([]byte("c18-new-key"), []byte("c18-new-value")); err != nil {
		return "Put after opening: " + err.Error()
	}
	want := map[string]string{}
	for k, v := range e.Contents {
		want[k] = v
	}
	s := sha256.Sum256([]byte("c18-new-value"))
	want[hex.EncodeToString([]byte("c18-new-key"))] = hex.EncodeToString(s[:])
	for hk := range e.Contents {
		k, _ := hex.DecodeString(hk)
		if err := db.Delete(k); err != nil {
			return "Delete after opening: " + err.Error()
		}
		delete(want, hk)
		break
	}
	if err := db.Close(); err != nil {
		closed = true
		return "Close: " + err.Error()
	}
	closed = true
	for round, unclean := range []bool{false, true} {
		img2 := img.Clone()
		if unclean {
			img2.SetBytes(explore.DBPath+"/lock", nil)
		}
		db2, err := pogreb.Open(explore.DBPath, cfg.Options(img2))
		if err != nil {
			return fmt.Sprintf("reopen (round %d, unclean=%v) failed: %v", round, unclean, err)
		}
		got, m := contentsOf(db2)
		_ = db2.Close()
		if m != "" {
			return m
		}
		if d := diffContents(want, got); d != "" {
			return fmt.Sprintf("after a write, a delete and a restart (unclean=%v) contents are wrong: %s", unclean, d)
		}
	}
	return ""
}

var segNameRE = regexp.MustCompile(`^[0-9]{5}-[0-9]+\.psg$`)

// formatOracle checks the files of a cleanly closed database against the documented format.
func formatOracle(s *explore.Sess, vi pogreb.VerifIndex, segs []pogreb.VerifSegment, seed uint32) string {
	fsys := s.FS
	files := explore.SegmentFiles(fsys)
	seqs := map[int]bool{}
	for name, data := range files {
		if !segNameRE.MatchString(name) {
			return "segment file name " + name + " does not match %05d-%d.psg"
		}
		sn, err := refmodel.ParseSegmentName(name)
		if err != nil {
			return err.Error()
		}
		if seqs[int(sn.Seq)] {
			return fmt.Sprintf("two segments share sequence id %d", sn.Seq)
		}
		seqs[int(sn.Seq)] = true
		d := refmodel.DecodeSegment(data)
		if !d.HeaderOK {
			return "segment " + name + ": " + d.Stop
		}
		if d.ValidEnd != int64(len(data)) {
			return fmt.Sprintf("segment %s: the independent reader of the documented format accepts records up to offset %d (%s), the file has %d bytes", name, d.ValidEnd, d.Stop, len(data))
		}
	}
	d := refmodel.ReplayDir(files)
	if d.Err != "" {
		return "independent replay: " + d.Err
	}
	if got := explore.ModelFromDecode(d); !s.Model.Equal(got) {
		return "independent replay of the segments in sequence order differs from the contents: " + s.Model.Diff(got, s.KeyName)
	}
	// index files
	main := fsys.Bytes(explore.DBPath + "/main.pix")
	over := fsys.Bytes(explore.DBPath + "/overflow.pix")
	for _, f := range [][]byte{main, over} {
		if len(f) < refmodel.HeaderSize || !bytes.Equal(f[:8], refmodel.Signature) || f[8] != refmodel.FormatVersion {
			return "index file without the documented header (signature, version 2)"
		}
	}
	for bi, chain := range vi.Chains {
		for ci, vb := range chain {
			file := main
			if ci > 0 {
				file = over
			}
			if vb.Offset+refmodel.BucketSize > int64(len(file)) {
				return fmt.Sprintf("bucket %d/%d lies outside its file", bi, ci)
			}
			if ci == 0 && vb.Offset != int64(refmodel.HeaderSize+bi*refmodel.BucketSize) {
				return fmt.Sprintf("main bucket %d is not at offset header+%d*512", bi, bi)
			}
			ib := refmodel.DecodeBucket(file[vb.Offset : vb.Offset+refmodel.BucketSize])
			if ib.Next != vb.Next {
				return fmt.Sprintf("bucket %d/%d: overflow pointer decoded from the documented layout is %d, the index says %d", bi, ci, ib.Next, vb.Next)
			}
			for si := range ib.Slots {
				a, b := ib.Slots[si], vb.Slots[si]
				if a.Hash != b.Hash || a.SegmentID != b.SegmentID || a.KeySize != b.KeySize || a.ValueSize != b.ValueSize || a.Offset != b.Offset {
					return fmt.Sprintf("bucket %d/%d slot %d: decoded from the documented layout (31 x 16-byte little-endian slots) %+v, the index says %+v", bi, ci, si, a, b)
				}
			}
		}
	}
	// metadata (gob, field names of the pinned version)
	var im v2IndexMeta
	if err := decodeGobFile(fsys.Bytes(explore.DBPath+"/index.pmt"), &im); err != nil {
		return "index.pmt: " + err.Error()
	}
	if im.Level != vi.Level || im.NumKeys != vi.NumKeys || im.NumBuckets != vi.NumBuckets || im.SplitBucketIndex != vi.SplitBucketIdx || fmt.Sprint(im.FreeOverflowBuckets) != fmt.Sprint(vi.FreeList) {
		return fmt.Sprintf("index.pmt read with the pinned version's field names gives %+v, the index had level=%d keys=%d buckets=%d split=%d free=%v", im, vi.Level, vi.NumKeys, vi.NumBuckets, vi.SplitBucketIdx, vi.FreeList)
	}
	var dm v2DBMeta
	if err := decodeGobFile(fsys.Bytes(explore.DBPath+"/db.pmt"), &dm); err != nil {
		return "db.pmt: " + err.Error()
	}
	if dm.HashSeed != seed {
		return fmt.Sprintf("db.pmt read with the pinned version's field names gives hash seed %d, the database used %d", dm.HashSeed, seed)
	}
	for _, sg := range segs {
		var sm v2SegmentMeta
		if err := decodeGobFile(fsys.Bytes(explore.DBPath+"/"+sg.Name+".pmt"), &sm); err != nil {
			return sg.Name + ".pmt: " + err.Error()
		}
		if sm.Full != sg.Full || sm.PutRecords != sg.PutRecords || sm.DeleteRecords != sg.DeleteRecords || sm.DeletedKeys != sg.DeletedKeys || sm.DeletedBytes != sg.DeletedBytes {
			return fmt.Sprintf("%s.pmt read with the pinned version's field names gives %+v, the segment had %+v", sg.Name, sm, sg)
		}
	}
	return ""
}

func c18Word(c *explore.Ctx, base *explore.Base, bname, cfg string, word []explore.Op) *explore.Violation {
	s := base.NewSess()
	mk := func(msg string) *explore.Violation {
		return &explore.Violation{
			Key:    fmt.Sprintf("write base=%s cfg=%s word=%s", bname, cfg, explore.WordString(word)),
			What:   fmt.Sprintf("files written by [%s] from base %s/%s and a clean Close: %s", explore.WordString(word), bname, cfg, msg),
			Size:   len(word),
			Replay: map[string]interface{}{"kind": "write18", "base": bname, "cfg": cfg, "word": opsJSON(word), "observed": msg},
		}
	}
	if err := s.OpenDB(); err != nil {
		return mk("Open: " + err.Error())
	}
	for _, o := range word {
		_ = s.Apply(o)
		c.Add("transitions", 1)
	}
	if s.Panicked != "" {
		return mk(s.Panicked)
	}
	vi, err := s.DB.VerifIndex()
	if err != nil {
		_ = s.DB.Close()
		return mk("index walk: " + err.Error())
	}
	segs := s.DB.VerifSegments()
	seed := s.DB.VerifHashSeed()
	if err := s.DB.Close(); err != nil {
		return mk("Close: " + err.Error())
	}
	s.DB = nil
	c.Add("executions", 1)
	c.Add("directories_decoded", 1)
	c.Distinct("outcome", explore.Hash64("w", bname, cfg, s.FS.Hash()))
	if msg := formatOracle(s, vi, segs, seed); msg != "" {
		return mk(msg)
	}
	return nil
}

// c18FaultWord: the files must also follow the documented format when a write was hit by a transient I/O error
// (nothing written, or - for a data write crossing a 512-byte-aligned file offset - written up to that offset) and
// the application retried it and carried on: pad the current segment so that the next record straddles a sector
// boundary, run op with the fault at mutating call #n, retry op, Put(b), clean Close, format oracle.
// done = op makes fewer than n mutating calls.
func c18FaultWord(c *explore.Ctx, base *explore.Base, bname, cfg string, o explore.Op, n int, part bool) (bool, *explore.Violation) {
	s := base.NewSess()
	s.FS.FailPartial = part
	mk := func(msg string) *explore.Violation {
		return &explore.Violation{
			Key:    fmt.Sprintf("faulted-write base=%s cfg=%s op=%s fault@%d partial=%v", bname, cfg, o, n, part),
			What:   fmt.Sprintf("base %s/%s, segment padded to 8 bytes before a sector boundary, %s with a transient I/O error at its mutating file-system call #%d (partial=%v), the same call retried, Put(b), clean Close: %s", bname, cfg, o, n, part, msg),
			Size:   n,
			Replay: map[string]interface{}{"kind": "faultwrite18", "base": bname, "cfg": cfg, "op": opsJSON([]explore.Op{o}), "fault_at": n, "partial": part, "observed": msg},
		}
	}
	if err := s.OpenDB(); err != nil {
		return true, mk("Open: " + err.Error())
	}
	if base.Cfg.MaxSeg == 0 {
		sizes := map[string]int{}
		for _, nm := range s.FS.NamesIn(explore.DBPath) {
			sizes[nm] = len(s.FS.Bytes(explore.DBPath + "/" + nm))
		}
		pad := func(k string, vlen int) {
			v := strings.Repeat("p", vlen)
			if err := s.DB.Put([]byte(k), []byte(v)); err != nil {
				c.HarnessError("padding Put: %v", err)
			}
			s.Model[k] = v
		}
		pad("pad-key-1", 1)
		for _, nm := range s.FS.NamesIn(explore.DBPath) {
			if sz := len(s.FS.Bytes(explore.DBPath + "/" + nm)); strings.HasSuffix(nm, ".psg") && sz != sizes[nm] {
				const k2 = "pad-key-2"
				pad(k2, ((504-sz-10-len(k2))%512+512)%512)
			}
		}
	}
	before := s.FS.Mutations()
	s.FS.FailAt = before + n
	err := s.Apply(o)
	s.FS.FailAt = 0
	if s.FS.Mutations() < before+n {
		_ = s.ProtectedClose()
		return true, nil
	}
	c.Add("executions", 1)
	c.Add("fault_cases", 1)
	c.Add("transitions", 4)
	if s.Panicked != "" {
		return false, mk(s.Panicked)
	}
	if err != nil {
		if err := s.Apply(o); err != nil {
			return false, mk("the retried call failed as well: " + err.Error())
		}
	}
	if err := s.Apply(explore.Op{Kind: explore.Put, Key: "b"}); err != nil {
		return false, mk("Put(b) after the retry: " + err.Error())
	}
	if s.Panicked != "" {
		return false, mk(s.Panicked)
	}
	vi, verr := s.DB.VerifIndex()
	if verr != nil {
		_ = s.DB.Close()
		return false, mk("index walk: " + verr.Error())
	}
	segs := s.DB.VerifSegments()
	seed := s.DB.VerifHashSeed()
	if err := s.DB.Close(); err != nil {
		return false, mk("Close: " + err.Error())
	}
	s.DB = nil
	c.Add("directories_decoded", 1)
	c.Distinct("outcome", explore.Hash64("fw", bname, cfg, s.FS.Hash()))
	if msg := formatOracle(s, vi, segs, seed); msg != "" {
		return false, mk(msg)
	}
	return false, nil
}

func loadGoldenManifest() (map[string]*goldenEntry, error) {
	data, err := os.ReadFile(filepath.Join(explore.VerifDir, "golden", "manifest.json"))
	if err != nil {
		return nil, err
	}
	manifest := map[string]*goldenEntry{}
	if err := json.Unmarshal(data, &manifest); err != nil {
		return nil, err
	}
	return manifest, nil
}

func runC18(c *explore.Ctx) {
	// read side
	gdir := filepath.Join(explore.VerifDir, "golden")
	manifest, err := loadGoldenManifest()
	if err != nil {
		c.HarnessError("golden corpus: %v", err)
	}
	var names []string
	for n := range manifest {
		names = append(names, n)
	}
	sort.Strings(names)
	for _, n := range names {
		if !c.Mine() {
			continue
		}
		c.Add("executions", 1)
		c.Add("golden_directories", 1)
		c.Add("transitions", 4)
		c.Distinct("outcome", explore.Hash64("g", n))
		if msg := goldenCheck(c, n, manifest[n], filepath.Join(gdir, n)); msg != "" {
			c.Violation(explore.Violation{Key: "golden " + n, What: fmt.Sprintf("golden directory %q (%s; written by the pinned version): %s", n, manifest[n].Note, msg), Size: 0,
				Replay: map[string]interface{}{"kind": "golden18", "name": n, "observed": msg}})
			return
		}
		c.Sample(map[string]interface{}{"golden_directory": n, "note": manifest[n].Note, "keys": manifest[n].Count, "clean": manifest[n].Clean})
	}
	// write side under transient I/O errors
	for _, x := range [][2]string{{"E", "BIGC"}, {"CH", "BIGC"}, {"S2", "ROLL"}} {
		base, err := explore.GetBase(x[0], cfgByName(x[1]), 0)
		if err != nil {
			c.HarnessError("%v", err)
		}
		explore.PinSeed(0)
		for _, o := range []explore.Op{{Kind: explore.Put, Key: "a"}, {Kind: explore.Put, Key: "b"}, {Kind: explore.Delete, Key: "a"}} {
			if !c.Mine() {
				continue
			}
			for _, part := range []bool{false, true} {
				for n := 1; n < 100; n++ {
					done, v := c18FaultWord(c, base, x[0], x[1], o, n, part)
					if v != nil {
						c.Violation(*v)
						return
					}
					if done {
						break
					}
				}
			}
		}
	}
	// write side
	type sp struct {
		base, cfg string
		depth     int
	}
	spaces := []sp{{"E", "BIGC", 2}, {"CH", "BIGC", 2}, {"SP", "BIGC", 2}, {"ML", "BIGC", 2}, {"FL", "BIGC", 2}, {"LCS", "BIGC", 1}, {"E", "ROLL", 3}, {"S2", "ROLL", 2}, {"CH", "ROLL", 2}, {"E", "ROLL1", 2}, {"S2", "ROLL1", 3}}
	if c.Thorough() {
		spaces = []sp{{"E", "BIGC", 4}, {"CH", "BIGC", 3}, {"CC", "BIGC", 3}, {"SP", "BIGC", 3}, {"ML", "BIGC", 3}, {"HO", "BIGC", 3}, {"FL", "BIGC", 3}, {"FL3", "BIGC", 3}, {"LCS", "BIGC", 3}, {"LCM", "BIGC", 3}, {"E", "ROLL", 5}, {"S2", "ROLL", 4}, {"S3", "ROLL", 4}, {"CH", "ROLL", 3}, {"SP", "ROLL", 3}, {"E", "ROLL1", 4}, {"S2", "ROLL1", 5}, {"RU", "ROLL", 4}}
	}
	for _, s := range spaces {
		if c.Expired() || c.NViolations() > 0 {
			return
		}
		base, err := explore.GetBase(s.base, cfgByName(s.cfg), 0)
		if err != nil {
			c.HarnessError("%v", err)
		}
		explore.PinSeed(0)
		letters := explore.Letters(base.Alpha, explore.Compact, explore.Reopen)
		s := s
		enumWords(c, letters, s.depth, func(word []explore.Op, _ int) bool {
			if c.Expired() {
				return false
			}
			if v := c18Word(c, base, s.base, s.cfg, word); v != nil {
				return !c.Violation(*v)
			}
			return true
		})
	}
}

func init() {
	explore.Register(&explore.CheckInfo{
		Prop:  "C18",
		Level: "exploration",
		Rule: "read side: every directory of the committed golden corpus written by the pinned commit (empty; one key; 255 one-byte keys; 3000 keys with several index levels, split pointer mid-level, overflow chains and free overflow buckets; rolled-over log with overwrites, deletes and delete records; after a partial compaction with reused segment ids out of sequence order; zero-length/65535-byte keys and 0/64 KiB values; emptied and re-seeded; through fs.OS and fs.OSMMap; cleanly closed and unclean incl. a torn tail) is opened by the current build: recovery iff unclean, Count, every key/value by scan and by Get, structural index walk, then a Put + Delete + clean restart + unclean restart. " +
			"write side: after every word of length d over the C01 alphabet + Reopen from chained/split/rolled bases and a clean Close: an independent reader of docs/design.md accounts for every byte of every segment, names match %05d-%d.psg with distinct sequence ids, replay in sequence order == model, main.pix/overflow.pix decode (31 x 16-byte LE slots + 8-byte next per 512-byte bucket) == index dump, index.pmt/db.pmt/<segment>.pmt decode with independently declared gob structs of the pinned field names == dump. distinct_nontrivial = golden directories + distinct written directory images; write side under I/O errors: from E/CH (segment padded so that the next record straddles a sector boundary) and S2/ROLL, Put(a)/Put(b)/Delete(a) with a transient error at every mutating file-system call (nothing written / written up to the last 512-byte-aligned offset inside the write), the call retried, Put(b), clean Close: same format oracle",
		Assumptions:   []string{"the corpus is finite (14 directories) and was generated once from the pinned commit (tools/golden/gen.sh); 'all databases ever written' is not a quantifier this check exhausts", "gob metadata has no documented format: it is pinned by field names and by the corpus"},
		QuickBudget:   100 * time.Second,
		ThorBudget:    25 * time.Minute,
		Run:           runC18,
		EvalKey:       "executions",
		DistinctClass: "outcome",
	})
}
