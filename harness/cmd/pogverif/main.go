// Command pogverif is the single binary behind every check: `pogverif check Cxx --tier quick|thorough`
// coordinates worker processes (`pogverif worker ...`), merges their results, writes the evidence
// file and prints KNOWN-FINDING / VIOLATION lines; `pogverif replay <file>` re-executes one artefact.
package main

import (
	"fmt"
	"os"
	"strconv"
	"strings"
	"time"

	"github.com/akrylysov/pogreb/zzverif/explore"
)

func main() {
	if len(os.Args) < 2 {
		usage()
	}
	if d := os.Getenv("VERIF_DIR"); d != "" {
		explore.VerifDir = d
	}
	switch os.Args[1] {
	case "check":
		if len(os.Args) < 3 {
			usage()
		}
		prop := os.Args[2]
		tier := "quick"
		extra := map[string]string{}
		for i := 3; i < len(os.Args); i++ {
			switch os.Args[i] {
			case "--tier":
				i++
				tier = os.Args[i]
			case "--arg":
				i++
				kv := strings.SplitN(os.Args[i], "=", 2)
				extra[kv[0]] = kv[1]
			}
		}
		os.Exit(explore.CoordinatorMain(prop, tier, extra))
	case "worker":
		prop := os.Args[2]
		tier, out := "quick", ""
		shard, nshards, budget := 0, 1, 60
		args := map[string]string{}
		for i := 3; i < len(os.Args); i++ {
			switch os.Args[i] {
			case "--tier":
				i++
				tier = os.Args[i]
			case "--shard":
				i++
				shard, _ = strconv.Atoi(os.Args[i])
			case "--nshards":
				i++
				nshards, _ = strconv.Atoi(os.Args[i])
			case "--out":
				i++
				out = os.Args[i]
			case "--budget":
				i++
				budget, _ = strconv.Atoi(os.Args[i])
			case "--arg":
				i++
				kv := strings.SplitN(os.Args[i], "=", 2)
				args[kv[0]] = kv[1]
			}
		}
		explore.WorkerMain(prop, tier, shard, nshards, out, time.Duration(budget)*time.Second, args)
	case "replay":
		if len(os.Args) < 3 {
			usage()
		}
		os.Exit(replayMain(os.Args[2]))
	case "free":
		// pogverif free <mem|os|osmmap> <reps> <seed>   (meant for the -race build)
		reps, _ := strconv.Atoi(os.Args[3])
		seed, _ := strconv.ParseInt(os.Args[4], 10, 64)
		os.Exit(freeMain(os.Args[2], reps, seed))
	case "bases":
		for _, b := range []string{"E", "CH", "CC", "SP", "ML", "MS", "SC", "HO", "LCS", "LCM", "FL", "FL2", "FL3"} {
			base, err := explore.GetBase(b, cfgByName("BIGC"), 0)
			if err != nil {
				fmt.Println(b, "ERROR", err)
				continue
			}
			fmt.Println(b, base.Layout)
		}
		if base, err := explore.GetBase("SM", cfgByName("ROLLM"), 0); err == nil {
			fmt.Println("SM", base.Layout)
			for _, n := range base.Image.NamesIn("db") {
				fmt.Println("   ", n, len(base.Image.Bytes("db/"+n)))
			}
		} else {
			fmt.Println("SM ERROR", err)
		}
		for _, b := range []string{"S2", "S3", "S4", "RU"} {
			base, err := explore.GetBase(b, cfgByName("ROLL"), 0)
			if err != nil {
				fmt.Println(b, "ERROR", err)
				continue
			}
			fmt.Println(b, base.Layout)
		}
	case "list":
		for _, p := range explore.Props() {
			fmt.Println(p)
		}
	default:
		usage()
	}
}

func usage() {
	fmt.Fprintln(os.Stderr, "usage: pogverif check <Cxx> [--tier quick|thorough] | worker ... | replay <file> | list")
	os.Exit(2)
}
