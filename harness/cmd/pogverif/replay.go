package main

import (
	"encoding/json"
	"fmt"
	"os"
	"strings"

	"github.com/akrylysov/pogreb/zzverif/explore"
)

var replayers = map[string]func(rep map[string]interface{}) (string, error){}

// parseOp parses "Put(k)" / "Compact".
func parseOp(s string) (explore.Op, error) {
	name, key := s, ""
	if i := strings.IndexByte(s, '('); i >= 0 {
		name, key = s[:i], strings.TrimSuffix(s[i+1:], ")")
	}
	for k := explore.Put; k <= explore.PutBig; k++ {
		if k.String() == name {
			return explore.Op{Kind: k, Key: key}, nil
		}
	}
	return explore.Op{}, fmt.Errorf("unknown op %q", s)
}

func parseWord(v interface{}) ([]explore.Op, error) {
	var w []explore.Op
	l, _ := v.([]interface{})
	for _, x := range l {
		o, err := parseOp(fmt.Sprint(x))
		if err != nil {
			return nil, err
		}
		w = append(w, o)
	}
	return w, nil
}

func replayMain(path string) int {
	data, err := os.ReadFile(path)
	if err != nil {
		fmt.Fprintln(os.Stderr, err)
		return 2
	}
	var art struct {
		Property string                 `json:"property"`
		Key      string                 `json:"key"`
		What     string                 `json:"what"`
		Replay   map[string]interface{} `json:"replay"`
	}
	if err := json.Unmarshal(data, &art); err != nil {
		fmt.Fprintln(os.Stderr, err)
		return 2
	}
	kind := fmt.Sprint(art.Replay["kind"])
	art.Replay["_property"] = art.Property
	r := replayers[kind]
	if r == nil {
		fmt.Fprintf(os.Stderr, "no replayer for artefact kind %q\n", kind)
		return 2
	}
	fmt.Printf("replaying %s (%s)\nrecorded: %s\n", art.Property, kind, art.What)
	obs, err := r(art.Replay)
	if err != nil {
		fmt.Fprintln(os.Stderr, "replay error:", err)
		return 2
	}
	if obs == "" {
		fmt.Println("replay: property held on this artefact (no violation observed)")
		return 0
	}
	fmt.Println("replay: VIOLATION reproduced:", obs)
	return 1
}

func numField(rep map[string]interface{}, k string) uint32 {
	f, _ := rep[k].(float64)
	return uint32(f)
}

func init() {
	replayers["word"] = func(rep map[string]interface{}) (string, error) {
		word, err := parseWord(rep["word"])
		if err != nil {
			return "", err
		}
		seed := numField(rep, "seed")
		base, err := explore.GetBase(fmt.Sprint(rep["base"]), cfgByName(fmt.Sprint(rep["cfg"])), seed)
		if err != nil {
			return "", err
		}
		explore.PinSeed(seed)
		s := base.NewSess()
		if err := s.OpenDB(); err != nil {
			return "Open: " + err.Error(), nil
		}
		for i, o := range word {
			err := s.Apply(o)
			fmt.Printf("  step %d %s -> err=%v\n", i+1, o, err)
			if msg := s.Check(); msg != "" {
				return fmt.Sprintf("after step %d (%s): %s", i+1, o, msg), nil
			}
		}
		return "", nil
	}
}
