package main

import (
	"fmt"
	"os"
	"path/filepath"
	"strings"

	"github.com/akrylysov/pogreb/fs"
	"github.com/akrylysov/pogreb/zzverif/explore"
)

// Replayers for the artefact kinds of the scheduler-based and the later checks. Each re-executes exactly
// the recorded case (scenario + schedule, word, sizes, fault position ...) without the explorer and returns
// the oracle's message ("" = the property held on this artefact).

func strList(v interface{}) []string {
	var out []string
	l, _ := v.([]interface{})
	for _, x := range l {
		out = append(out, fmt.Sprint(x))
	}
	return out
}

func intList(v interface{}) []int {
	var out []int
	l, _ := v.([]interface{})
	for _, x := range l {
		f, _ := x.(float64)
		out = append(out, int(f))
	}
	return out
}

func boolField(m map[string]interface{}, k string) bool { b, _ := m[k].(bool); return b }

func scenarioFromJSON(m map[string]interface{}) (*explore.Scenario, error) {
	sc := &explore.Scenario{Name: fmt.Sprint(m["name"]), Base: fmt.Sprint(m["base"]), Cfg: fmt.Sprint(m["cfg"]),
		FSYield: boolField(m, "fs_yield"), TrackRaces: boolField(m, "track_races"), Worker: boolField(m, "worker"), Poison: boolField(m, "poison"),
		QuietPop: boolField(m, "quiet_pop"), YieldSeg: boolField(m, "yield_seg"), YieldDirOnly: boolField(m, "yield_dir_only"), NoPrivateQuiet: boolField(m, "no_private_quiet"), Unclean: boolField(m, "unclean"), Record: true}
	if w, ok := m["wrap_fs"].(string); ok {
		sc.WrapFS = w
	}
	if f, ok := m["fail_seg_create"].(float64); ok {
		sc.FailSegCreate = int(f)
	}
	if f, ok := m["tick_budget"].(float64); ok {
		sc.TickBudget = int(f)
	}
	if f, ok := m["bound"].(float64); ok {
		sc.Bound = int(f)
	}
	ts, _ := m["threads"].([]interface{})
	for _, t := range ts {
		w, err := parseWord(t)
		if err != nil {
			return nil, err
		}
		sc.Threads = append(sc.Threads, explore.ThreadProg(w))
	}
	if pc := fmt.Sprint(m["post_close"]); pc != "" && pc != "<nil>" {
		for _, f := range strings.Fields(pc) {
			o, err := parseOp(f)
			if err != nil {
				return nil, err
			}
			sc.PostClose = append(sc.PostClose, o)
		}
	}
	return sc, nil
}

func init() {
	replayers["schedule"] = func(rep map[string]interface{}) (string, error) {
		sm, _ := rep["scenario"].(map[string]interface{})
		sc, err := scenarioFromJSON(sm)
		if err != nil {
			return "", err
		}
		base, err := explore.GetBase(sc.Base, cfgPL(sc.Cfg), 0)
		if err != nil {
			return "", err
		}
		explore.PinSeed(0)
		c := explore.NewLocalCtx(fmt.Sprint(rep["_property"]))
		var check func(r *explore.ConcRun) (string, string)
		switch c.Prop {
		case "C05":
			check = c05Check(c, base, sc, recMemo{}, map[string]string{})
			if sc.FailSegCreate > 0 {
				check = c05FaultConcCheck(c, base, sc, recMemo{})
			}
		case "C06":
			check = c06ConcCheck(c, base, sc, recMemo{}, nil)
			if strings.HasPrefix(sc.Name, "W2-") {
				check = c06TwoWriterCheck(c, base, sc, recMemo{})
			}
		case "C10":
			check = c10Check(c, base, sc)
		case "C11":
			check = c11Check(base, sc)
		case "C12":
			check = c12Check(c, base, sc, map[string]*explore.Recovered{})
		case "C13":
			check = c13OpenCloseCheck(base)
		case "C17":
			scratch, err := os.MkdirTemp("/dev/shm", "pogverif-replay-")
			if err != nil {
				return "", err
			}
			defer os.RemoveAll(scratch)
			check = c17ConcCheck(c, base, sc, scratch)
		default:
			lin := linCheck(base)
			if strings.HasPrefix(sc.Name, "BK-") {
				lin = c12Check(c, base, sc, map[string]*explore.Recovered{})
			}
			check = func(r *explore.ConcRun) (string, string) {
				if cl, m := lin(r); m != "" {
					return cl, m
				}
				for _, e := range r.Events {
					if e.Op.Kind == explore.Scan {
						if cl, m := scanOracle(r, base, e); m != "" {
							return cl, m
						}
					}
				}
				return "", ""
			}
		}
		r := explore.RunScenario(sc, base, intList(rep["choices"]), true)
		fmt.Printf("  scenario: %s\n  schedule (thread:operation per step): %v\n", sc.Describe(), r.X.Trace)
		switch {
		case r.X.Divergence != "":
			return "", fmt.Errorf("replay divergence: %s", r.X.Divergence)
		case r.X.Panic != "":
			return "panic in thread " + r.X.PanicThread + ": " + strings.SplitN(r.X.Panic, "\n", 2)[0], nil
		case r.X.Deadlock != "":
			return "deadlock: " + r.X.Deadlock, nil
		case r.OpenErr != "":
			return "Open failed: " + r.OpenErr, nil
		}
		_, msg := check(r)
		return msg, nil
	}
	replayers["lock13"] = func(rep map[string]interface{}) (string, error) {
		sc := lockScenario{Name: fmt.Sprint(rep["name"]), Init: fmt.Sprint(rep["init"])}
		ps, _ := rep["progs"].([]interface{})
		for _, p := range ps {
			sc.Progs = append(sc.Progs, strList(p))
		}
		scratch, err := os.MkdirTemp("/dev/shm", "pogverif-replay-")
		if err != nil {
			return "", err
		}
		defer os.RemoveAll(scratch)
		r := runLock(sc, scratch, 1, intList(rep["choices"]), true)
		fmt.Printf("  system-call trace: %v\n  events: %v\n", r.X.Trace, r.Events)
		if r.X.Panic != "" {
			return "panic: " + strings.SplitN(r.X.Panic, "\n", 2)[0], nil
		}
		if r.X.Deadlock != "" {
			return "deadlock: " + r.X.Deadlock, nil
		}
		return r.Viol, nil
	}
	replayers["fault04"] = func(rep map[string]interface{}) (string, error) {
		word, err := parseWord(rep["word"])
		if err != nil || len(word) == 0 {
			return "", fmt.Errorf("bad word: %v", err)
		}
		base, err := explore.GetBase(fmt.Sprint(rep["base"]), cfgByName(fmt.Sprint(rep["cfg"])), 0)
		if err != nil {
			return "", err
		}
		explore.PinSeed(0)
		c := explore.NewLocalCtx(fmt.Sprint(rep["_property"]))
		_, v := c04FaultCase(c, base, fmt.Sprint(rep["base"]), fmt.Sprint(rep["cfg"]), word[:len(word)-1], word[len(word)-1], int(numField(rep, "fault_at")), recMemo{}, boolField(rep, "partial"))
		if v != nil {
			return v.What, nil
		}
		return "", nil
	}
	replayers["faultwrite18"] = func(rep map[string]interface{}) (string, error) {
		word, err := parseWord(rep["op"])
		if err != nil || len(word) != 1 {
			return "", fmt.Errorf("bad op: %v", err)
		}
		base, err := explore.GetBase(fmt.Sprint(rep["base"]), cfgByName(fmt.Sprint(rep["cfg"])), 0)
		if err != nil {
			return "", err
		}
		explore.PinSeed(0)
		_, v := c18FaultWord(explore.NewLocalCtx("C18"), base, fmt.Sprint(rep["base"]), fmt.Sprint(rep["cfg"]), word[0], int(numField(rep, "fault_at")), boolField(rep, "partial"))
		if v != nil {
			return v.What, nil
		}
		return "", nil
	}
	replayers["real16"] = func(rep map[string]interface{}) (string, error) {
		scratch, err := os.MkdirTemp("/dev/shm", "pogverif-replay-")
		if err != nil {
			return "", err
		}
		defer os.RemoveAll(scratch)
		return strings.ReplaceAll(c16Real(fmt.Sprint(rep["fs"]), filepath.Join(scratch, "db"), int(numField(rep, "pre")), 16, int(numField(rep, "vlen"))), scratch, "<scratch>"), nil
	}
	replayers["failmaint15"] = func(rep map[string]interface{}) (string, error) {
		word, err := parseWord(rep["op"])
		if err != nil || len(word) != 1 {
			return "", fmt.Errorf("bad op: %v", err)
		}
		base, err := explore.GetBase(fmt.Sprint(rep["base"]), cfgByName(fmt.Sprint(rep["cfg"])), 0)
		if err != nil {
			return "", err
		}
		explore.PinSeed(0)
		_, bad := c15FailedMaintCase(explore.NewLocalCtx("C15"), base, word[0], int(numField(rep, "fault_at")))
		return bad, nil
	}
	replayers["panic"] = replayers["word"]
	replayers["slice14"] = func(rep map[string]interface{}) (string, error) {
		base, err := explore.GetBase(fmt.Sprint(rep["base"]), cfgByName(fmt.Sprint(rep["cfg"])), 0)
		if err != nil {
			return "", err
		}
		var word []c14Letter
		for _, n := range strList(rep["word"]) {
			for _, l := range c14Letters {
				if l.Name == n {
					word = append(word, l)
				}
			}
		}
		var fsys fs.FileSystem
		dir := explore.DBPath
		switch fmt.Sprint(rep["fs"]) {
		case "sim-poison":
			img := base.Image.Clone()
			img.Poison = true
			fsys = img
		default:
			scratch, err := os.MkdirTemp("/dev/shm", "pogverif-replay-")
			if err != nil {
				return "", err
			}
			defer os.RemoveAll(scratch)
			dir = filepath.Join(scratch, "d")
			fsys = fs.OSMMap
			if fmt.Sprint(rep["fs"]) == "os" {
				fsys = fs.OS
			}
			if fmt.Sprint(rep["fs"]) == "mem" {
				fsys, dir = fs.Mem, fmt.Sprintf("c14-replay-%d", os.Getpid())
			}
			if err := copyImage(base.Image, fsys, dir); err != nil {
				return "", err
			}
		}
		return c14Run(fsys, dir, base.Cfg, base, fmt.Sprint(rep["same"]), fmt.Sprint(rep["other"]), fmt.Sprint(rep["new"]), word), nil
	}
	cfg16 := func(n string) explore.Config {
		if n == "SEG1K" {
			return explore.Config{Name: "SEG1K", MaxSeg: 1024, MinSeg: 1, MinFrag: 1e-9}
		}
		return explore.BIGC
	}
	replayers["size16"] = func(rep map[string]interface{}) (string, error) {
		return c16Case(cfg16(fmt.Sprint(rep["cfg"])), int(numField(rep, "pre")), int(numField(rep, "klen")), int(numField(rep, "vlen"))), nil
	}
	replayers["limit16"] = func(rep map[string]interface{}) (string, error) {
		return c16Overlong(cfg16(fmt.Sprint(rep["cfg"])), int(numField(rep, "n")), false), nil
	}
	replayers["golden18"] = func(rep map[string]interface{}) (string, error) {
		c := explore.NewLocalCtx("C18")
		m, err := loadGoldenManifest()
		if err != nil {
			return "", err
		}
		n := fmt.Sprint(rep["name"])
		if m[n] == nil {
			return "", fmt.Errorf("no golden directory %q", n)
		}
		return goldenCheck(c, n, m[n], filepath.Join(explore.VerifDir, "golden", n)), nil
	}
	replayers["write18"] = func(rep map[string]interface{}) (string, error) {
		word, err := parseWord(rep["word"])
		if err != nil {
			return "", err
		}
		base, err := explore.GetBase(fmt.Sprint(rep["base"]), cfgByName(fmt.Sprint(rep["cfg"])), 0)
		if err != nil {
			return "", err
		}
		explore.PinSeed(0)
		if v := c18Word(explore.NewLocalCtx("C18"), base, fmt.Sprint(rep["base"]), fmt.Sprint(rep["cfg"]), word); v != nil {
			return v.What, nil
		}
		return "", nil
	}
	replayers["large15"] = func(rep map[string]interface{}) (string, error) {
		if v := c15LargeSegments(explore.NewLocalCtx("C15")); v != nil {
			return v.What, nil
		}
		return "", nil
	}
	replayers["seq13"] = func(rep map[string]interface{}) (string, error) {
		scratch, err := os.MkdirTemp("/dev/shm", "pogverif-replay-")
		if err != nil {
			return "", err
		}
		defer os.RemoveAll(scratch)
		if v := seqWord(explore.NewLocalCtx("C13"), fmt.Sprint(rep["fs"]), fmt.Sprint(rep["word"]), scratch, 1); v != nil {
			return v.What, nil
		}
		return "", nil
	}
	replayers["free10"] = func(rep map[string]interface{}) (string, error) {
		fmt.Println("  (free-running race-detector report: not a schedule, it cannot be replayed deterministically; re-run `./check.sh C10 quick`)")
		return fmt.Sprint(rep["report"]), nil
	}
}
