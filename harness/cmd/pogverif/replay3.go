package main

import (
	"fmt"
	"os"
	"strings"

	"github.com/akrylysov/pogreb/zzverif/explore"
)

// Replayers for the artefact kinds of the fault probes, the sequential backup layer and the C17/C02 fixed programs.

func baseOf(rep map[string]interface{}) (*explore.Base, error) {
	base, err := explore.GetBase(fmt.Sprint(rep["base"]), cfgPL(fmt.Sprint(rep["cfg"])), 0)
	if err == nil {
		explore.PinSeed(0)
	}
	return base, err
}

func init() {
	replayers["failopen13"] = func(rep map[string]interface{}) (string, error) {
		base, err := baseOf(rep)
		if err != nil {
			return "", err
		}
		unclean := base.Image.Clone()
		unclean.SetBytes(explore.DBPath+"/lock", nil)
		_, _, msg := c13FailedOpenCase(explore.NewLocalCtx("C13"), base, fmt.Sprint(rep["base"]), unclean, int(numField(rep, "fault_at")))
		return msg, nil
	}
	replayers["faultyclose09"] = func(rep map[string]interface{}) (string, error) {
		base, err := baseOf(rep)
		if err != nil {
			return "", err
		}
		pre, err := parseWord(rep["pre"])
		if err != nil {
			return "", err
		}
		_, _, bad := c09FaultyCloseCase(explore.NewLocalCtx("C09"), base, fmt.Sprint(rep["base"]), fmt.Sprint(rep["cfg"]), pre, int(numField(rep, "fault_at")), recMemo{})
		return bad, nil
	}
	replayers["failcompact09"] = func(rep map[string]interface{}) (string, error) {
		base, err := baseOf(rep)
		if err != nil {
			return "", err
		}
		pre, err := parseWord(rep["pre"])
		if err != nil {
			return "", err
		}
		_, bad := c09AfterFailedCompactCase(explore.NewLocalCtx("C09"), base, fmt.Sprint(rep["base"]), fmt.Sprint(rep["cfg"]), pre, int(numField(rep, "fault_at")), recMemo{})
		return bad, nil
	}
	replayers["backupcopy09"] = func(rep map[string]interface{}) (string, error) {
		base, err := baseOf(rep)
		if err != nil {
			return "", err
		}
		return c09BackupCopyCase(explore.NewLocalCtx("C09"), base, fmt.Sprint(rep["base"]), fmt.Sprint(rep["cfg"]), boolField(rep, "write")), nil
	}
	replayers["failbackup12"] = func(rep map[string]interface{}) (string, error) {
		base, err := baseOf(rep)
		if err != nil {
			return "", err
		}
		_, bad := c12FailedBackupCase(explore.NewLocalCtx("C12"), base, int(numField(rep, "fault_at")))
		return bad, nil
	}
	replayers["shortwrite12"] = func(rep map[string]interface{}) (string, error) {
		base, err := baseOf(rep)
		if err != nil {
			return "", err
		}
		w, err := parseWord(rep["op"])
		if err != nil || len(w) != 1 {
			return "", fmt.Errorf("bad op: %v", err)
		}
		_, bad := c12AfterShortWriteCase(explore.NewLocalCtx("C12"), base, w[0], int(numField(rep, "fault_at")))
		return bad, nil
	}
	replayers["grow16"] = func(rep map[string]interface{}) (string, error) {
		scratch, err := os.MkdirTemp("/dev/shm", "pogverif-replay-")
		if err != nil {
			return "", err
		}
		defer os.RemoveAll(scratch)
		return strings.ReplaceAll(c16GrowPastMapping(fmt.Sprint(rep["fs"]), scratch+"/db"), scratch, "<scratch>"), nil
	}
	replayers["grow17"] = func(rep map[string]interface{}) (string, error) {
		scratch, err := os.MkdirTemp("/dev/shm", "pogverif-replay-")
		if err != nil {
			return "", err
		}
		defer os.RemoveAll(scratch)
		a, b := c16GrowPastMapping("os", scratch+"/o"), c16GrowPastMapping("osmmap", scratch+"/m")
		if a != b {
			return strings.ReplaceAll(fmt.Sprintf("fs=os: %q; fs=osmmap: %q", a, b), scratch, "<scratch>"), nil
		}
		return "", nil
	}
	replayers["base"] = func(rep map[string]interface{}) (string, error) {
		_, err := explore.GetBase(fmt.Sprint(rep["base"]), cfgPL(fmt.Sprint(rep["cfg"])), uint32(numField(rep, "seed")))
		if bv, ok := err.(*explore.BaseViolation); ok {
			return bv.Error(), nil
		}
		return "", err
	}
	replayers["seq12"] = func(rep map[string]interface{}) (string, error) {
		base, err := baseOf(rep)
		if err != nil {
			return "", err
		}
		word, err := parseWord(rep["word"])
		if err != nil {
			return "", err
		}
		s := base.NewSess()
		if f, ok := rep["fixed_dir"].(string); ok {
			s.FixedBackupDir = f
		}
		if err := s.OpenDB(); err != nil {
			return "Open: " + err.Error(), nil
		}
		defer func() {
			if s.DB != nil {
				_ = s.DB.Close()
			}
		}()
		for i, o := range word {
			err := s.Apply(o)
			if s.Panicked != "" {
				return s.Panicked, nil
			}
			if o.Kind != explore.Backup {
				continue
			}
			// the artefact names the word up to the failing Backup: judge the last Backup (earlier ones were judged
			// when their own prefix was enumerated)
			if i != len(word)-1 {
				continue
			}
			if err != nil {
				return "Backup returned error: " + err.Error(), nil
			}
			rec := explore.RecoverImage(s.FS.SubImage(s.LastBackup, explore.DBPath), base.Cfg, base.Keys, base.Probe, base.Seed, explore.RecoverOpts{})
			switch {
			case rec.OpenErr != "":
				return "Open of the backup failed: " + rec.OpenErr, nil
			case rec.Internal != "":
				return "the opened backup is inconsistent: " + rec.Internal, nil
			case !s.Model.Equal(rec.Contents):
				return "the opened backup does not hold the contents the database had when Backup was called: " + s.Model.Diff(rec.Contents, s.KeyName), nil
			}
		}
		return "", nil
	}
	replayers["growth02"] = func(rep map[string]interface{}) (string, error) {
		c := explore.NewLocalCtx("C02")
		if numField(rep, "total") > 6000 {
			c.Tier = "thorough"
		}
		if v := c02LongGrowth(c); v != nil {
			return v.What, nil
		}
		return "", nil
	}
	replayers["giant17"] = func(rep map[string]interface{}) (string, error) {
		scratch, err := os.MkdirTemp("/dev/shm", "pogverif-replay-")
		if err != nil {
			return "", err
		}
		defer os.RemoveAll(scratch)
		base, err := explore.GetBase("E", explore.BIGC, 0)
		if err != nil {
			return "", err
		}
		if v := c17Giant(explore.NewLocalCtx("C17"), scratch, base.Keys); v != nil {
			return v.What, nil
		}
		return "", nil
	}
	replayers["diff17"] = func(rep map[string]interface{}) (string, error) {
		scratch, err := os.MkdirTemp("/dev/shm", "pogverif-replay-")
		if err != nil {
			return "", err
		}
		defer os.RemoveAll(scratch)
		base, err := explore.GetBase("E", explore.BIGC, 0)
		if err != nil {
			return "", err
		}
		explore.PinSeed(0)
		var cfg explore.Config
		switch fmt.Sprint(rep["cfg"]) {
		case "BIG2":
			cfg = explore.Config{Name: "BIG2", MaxSeg: 512 + 150000, MinSeg: 1, MinFrag: 1e-9}
		default:
			cfg = cfgByName(fmt.Sprint(rep["cfg"]))
		}
		var word []c17Letter
		for _, n := range strList(rep["word"]) {
			found := false
			for _, l := range c17Letters {
				if l.Name == n {
					word = append(word, l)
					found = true
				}
			}
			if !found {
				return "", fmt.Errorf("unknown letter %q", n)
			}
		}
		kind := fmt.Sprint(rep["fs"])
		t := newTarget("sim", scratch, 1)
		ref := runC17Word(t, cfg, base.Keys, word)
		t.cleanup()
		for i := 0; i < 5; i++ {
			t2 := newTarget(kind, scratch, 2+i)
			tr := runC17Word(t2, cfg, base.Keys, word)
			t2.cleanup()
			if firstDiff(ref, tr) == "" {
				return "", nil
			}
			if i == 4 {
				return fmt.Sprintf("program [%s] under %s behaves differently on fs=%s than on simfs: %s", strings.Join(strList(rep["word"]), ", "), cfg.Name, kind, firstDiff(ref, tr)), nil
			}
		}
		return "", nil
	}
}
