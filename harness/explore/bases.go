package explore

import (
	"fmt"
	"sort"
	"strings"
	"sync"

	"github.com/akrylysov/pogreb"
	"github.com/akrylysov/pogreb/zzverif/hashforge"
	"github.com/akrylysov/pogreb/zzverif/simfs"
)

// BIGC is the default segment size with minimal compaction thresholds.
var BIGC = Config{Name: "BIGC", MinSeg: 1, MinFrag: 1e-9}

// Base is an engineered start state: a cleanly closed database image plus its model and key roles.
type Base struct {
	Name   string
	Cfg    Config
	Seed   uint32
	Image  *simfs.FS
	Model  Model
	Keys   map[string][]byte
	Alpha  []string // roles used as alphabet keys
	Probe  []string // roles read by the oracle after every step (Alpha + some untouched base keys)
	NVal   int
	Layout string // diagnostic description of the index reached
}

// ForgeKey builds an 8-byte key with the given full hash.
func ForgeKey(seed uint32, role byte, n int, target uint32) []byte {
	return hashforge.Forge(hashforge.Label4(role, n), seed, target)
}

type baseBuilder struct {
	s    *Sess
	b    *Base
	err  error
	nkey int
}

func newBuilder(name string, cfg Config, seed uint32) *baseBuilder {
	PinSeed(seed)
	s := &Sess{FS: simfs.New(), Cfg: cfg, Model: Model{}, Keys: map[string][]byte{}, Seed: seed}
	bb := &baseBuilder{s: s, b: &Base{Name: name, Cfg: cfg, Seed: seed}}
	bb.err = s.OpenDB()
	return bb
}

func (bb *baseBuilder) key(role string, target uint32) {
	bb.nkey++
	bb.s.Keys[role] = ForgeKey(bb.s.Seed, 'k', bb.nkey, target)
}

func (bb *baseBuilder) put(role string) {
	if bb.err == nil {
		bb.err = bb.s.Apply(Op{Kind: Put, Key: role})
	}
}

func (bb *baseBuilder) del(role string) {
	if bb.err == nil {
		bb.err = bb.s.Apply(Op{Kind: Delete, Key: role})
	}
}

func (bb *baseBuilder) finish(alpha []string, extraProbe []string) (*Base, error) {
	if bb.err != nil {
		if bb.s.DB != nil {
			if msg := bb.s.Check(); msg != "" {
				return nil, &BaseViolation{Base: bb.b.Name, Cfg: bb.b.Cfg.Name, Seed: bb.b.Seed, Msg: msg + " (the builder stopped with: " + bb.err.Error() + ")"}
			}
		}
		return nil, fmt.Errorf("building base %s: %v", bb.b.Name, bb.err)
	}
	if msg := bb.s.Check(); msg != "" {
		return nil, &BaseViolation{Base: bb.b.Name, Cfg: bb.b.Cfg.Name, Seed: bb.b.Seed, Msg: msg}
	}
	s := bb.s
	if vi, err := s.DB.VerifIndex(); err == nil {
		var parts []string
		for i, ch := range vi.Chains {
			var lens []string
			for _, b := range ch {
				n := 0
				for _, sl := range b.Slots {
					if sl.Offset != 0 {
						n++
					}
				}
				lens = append(lens, fmt.Sprint(n))
			}
			parts = append(parts, fmt.Sprintf("b%d[%s]", i, strings.Join(lens, "+")))
		}
		bb.b.Layout = fmt.Sprintf("level=%d split=%d buckets=%d keys=%d free=%v segs=%d %s", vi.Level, vi.SplitBucketIdx, vi.NumBuckets, vi.NumKeys, vi.FreeList, len(s.DB.VerifSegments()), strings.Join(parts, " "))
	}
	if err := s.DB.Close(); err != nil {
		return nil, fmt.Errorf("building base %s: Close: %v", bb.b.Name, err)
	}
	b := bb.b
	b.Image = s.FS.Clone()
	b.Model = s.Model
	b.Keys = s.Keys
	b.Alpha = alpha
	b.Probe = append(append([]string(nil), alpha...), extraProbe...)
	b.NVal = s.NVal
	return b, nil
}

// locate returns role names of keys by their position in the dump: chain index, position in chain, slot.
func (bb *baseBuilder) at(bucket, chainPos, slot int) string {
	vi, err := bb.s.DB.VerifIndex()
	if err != nil || bucket >= len(vi.Chains) || chainPos >= len(vi.Chains[bucket]) {
		return ""
	}
	sl := vi.Chains[bucket][chainPos].Slots[slot]
	if sl.Offset == 0 {
		return ""
	}
	var roles []string
	for r := range bb.s.Keys {
		roles = append(roles, r)
	}
	sort.Strings(roles)
	for _, r := range roles {
		if hashforge.Sum32(bb.s.Keys[r], bb.s.Seed) == sl.Hash {
			if _, live := bb.s.Model[string(bb.s.Keys[r])]; live {
				return r
			}
		}
	}
	return ""
}

func (bb *baseBuilder) alias(newRole, oldRole string) {
	if oldRole == "" {
		if bb.err == nil {
			bb.err = fmt.Errorf("role %s could not be located in the index dump", newRole)
		}
		return
	}
	bb.s.Keys[newRole] = bb.s.Keys[oldRole]
}

// BuildBase builds the named base under the configuration and seed.
func BuildBase(name string, cfg Config, seed uint32) (*Base, error) {
	bb := newBuilder(name, cfg, seed)
	if bb.err != nil {
		return nil, bb.err
	}
	switch name {
	case "E":
		bb.key("a", 0x11110000)
		bb.key("b", 0x22220001)
		bb.key("c", 0x11110000) // same full hash as a
		bb.key("d", 0x33330002)
		return bb.finish([]string{"a", "b", "c", "d"}, nil)
	case "CH", "HO", "CC":
		for i := 0; i < 33; i++ {
			h := uint32(i+1) << 8
			if name == "CC" && (i == 5 || i == 31 || i == 32) {
				h = 0x00AA0000
			}
			bb.key(fmt.Sprintf("k%02d", i), h)
		}
		for i := 0; i < 33; i++ {
			bb.put(fmt.Sprintf("k%02d", i))
		}
		if bb.err != nil {
			return nil, bb.err
		}
		bb.alias("h0", bb.at(0, 0, 0))
		bb.alias("h1", bb.at(0, 0, 30))
		bb.alias("o0", bb.at(0, 1, 0))
		bb.alias("o1", bb.at(0, 1, 1))
		if name == "CC" {
			bb.s.Keys["c0"] = bb.s.Keys["k05"]
			bb.s.Keys["o0"] = bb.s.Keys["k31"]
			bb.s.Keys["o1"] = bb.s.Keys["k32"]
		}
		bb.nkey++
		bb.s.Keys["x"] = ForgeKey(seed, 'x', 0, hashforge.Sum32(bb.s.Keys["o0"], seed))
		bb.key("y", 0x77000000)
		bb.key("z", 0x77000001)
		if name == "HO" {
			bb.del("h1")
		}
		alpha := []string{"h0", "h1", "o0", "o1", "x", "y", "z"}
		if name == "CC" {
			alpha = []string{"h0", "c0", "o0", "o1", "x", "y", "z"}
		}
		return bb.finish(alpha, []string{"k03", "k17", "k29"})
	case "SP":
		// 43 keys, 2 buckets: bucket 0 holds a chain of 32 (31 stay, one moves to bucket 2 at the
		// next split), bucket 1 holds 11. The 44th key triggers the split of the chained bucket.
		for i := 0; i < 31; i++ {
			bb.key(fmt.Sprintf("p%02d", i), uint32(i+1)<<8|0x00)
		}
		bb.key("m2", 0x00990002)
		for i := 0; i < 11; i++ {
			bb.key(fmt.Sprintf("q%02d", i), uint32(i+1)<<8|0x01)
		}
		for i := 0; i < 31; i++ {
			bb.put(fmt.Sprintf("p%02d", i))
		}
		bb.put("m2")
		for i := 0; i < 11; i++ {
			bb.put(fmt.Sprintf("q%02d", i))
		}
		if bb.err != nil {
			return nil, bb.err
		}
		bb.alias("h0", bb.at(0, 0, 0))
		bb.alias("o0", bb.at(0, 1, 0))
		bb.alias("b1", bb.at(1, 0, 0))
		bb.key("n1", 0x00550001) // new key for bucket 1 (triggers the split)
		bb.key("n2", 0x00660000) // new key for bucket 0 (full head after the split: reuses the freed overflow bucket)
		bb.key("n3", 0x00770002) // new key for bucket 2 after the split (bucket 0 before)
		return bb.finish([]string{"h0", "o0", "m2", "b1", "n1", "n2", "n3"}, []string{"p07", "p19", "q05"})
	case "ML":
		// level 2, split pointer 1, 5 buckets; a chain behind the split pointer (bucket 0) and one ahead (bucket 2)
		var order []string
		for i := 0; i < 32; i++ {
			r := fmt.Sprintf("a%02d", i)
			bb.key(r, uint32(i+1)<<8|0x00)
			order = append(order, r)
			r = fmt.Sprintf("c%02d", i)
			bb.key(r, uint32(i+1)<<8|0x02)
			order = append(order, r)
		}
		for i := 0; i < 8; i++ {
			for j, low := range []uint32{0x01, 0x03, 0x04} {
				r := fmt.Sprintf("%c%02d", "def"[j], i)
				bb.key(r, uint32(i+1)<<8|low)
				order = append(order, r)
			}
		}
		for _, r := range order {
			bb.put(r)
		}
		if bb.err != nil {
			return nil, bb.err
		}
		bb.alias("a0", bb.at(0, 0, 0))
		bb.alias("ao", bb.at(0, 1, 0))
		bb.alias("c0", bb.at(2, 0, 0))
		bb.alias("co", bb.at(2, 1, 0))
		bb.alias("b1", bb.at(1, 0, 0))
		bb.key("n0", 0x00550008) // new key for bucket 0
		bb.key("n2", 0x0066000A) // new key for bucket 2
		return bb.finish([]string{"a0", "ao", "c0", "co", "b1", "n0", "n2"}, []string{"a17", "c09", "f03"})
	case "S2":
		// three segments under ROLL: overwritten, deleted and live records, a delete record whose put is older
		bb.key("a", 0x11110000)
		bb.key("b", 0x22220001)
		bb.key("c", 0x11110000) // same full hash as a
		bb.key("d", 0x33330002)
		bb.key("e", 0x44440003)
		bb.key("n", 0x55550004)
		bb.put("a")
		bb.put("b")
		bb.put("d")
		bb.put("a")
		bb.del("d")
		bb.put("e")
		bb.put("b")
		return bb.finish([]string{"a", "b", "c", "d", "e", "n"}, nil)
	case "S3":
		// like S2 with one more sealed segment and a colliding live key
		bb.key("a", 0x11110000)
		bb.key("b", 0x22220001)
		bb.key("c", 0x11110000)
		bb.key("d", 0x33330002)
		bb.key("e", 0x44440003)
		bb.key("n", 0x55550004)
		bb.put("a")
		bb.put("c")
		bb.put("d")
		bb.put("b")
		bb.del("d")
		bb.put("e")
		bb.put("a")
		bb.del("b")
		bb.put("d")
		bb.put("e")
		return bb.finish([]string{"a", "b", "c", "d", "e", "n"}, nil)
	case "LCS", "LCM":
		// long chain: every key has the same low hash byte, so all live in one chain (3 buckets) and the
		// index grows by splitting around them; built up to the point where the NEXT new key splits
		// bucket 0 at level 2: in LCS (low byte 0x00) all keys stay in bucket 0 and the chain is rebuilt,
		// in LCM (low byte 0x04) all of them move to the new bucket 4.
		low := uint32(0x00)
		if name == "LCM" {
			low = 0x04
		}
		for i := 0; i < 200 && bb.err == nil; i++ {
			vi, err := bb.s.DB.VerifIndex()
			if err != nil {
				bb.err = err
				break
			}
			if vi.Level == 2 && vi.SplitBucketIdx == 0 && float64(vi.NumKeys+1)/float64(vi.NumBuckets*31) > 0.7 && len(vi.Chains[0]) >= 3 {
				break
			}
			r := fmt.Sprintf("l%03d", i)
			bb.key(r, uint32(i+1)<<8|low)
			bb.put(r)
		}
		if bb.err != nil {
			return nil, bb.err
		}
		bb.alias("h0", bb.at(0, 0, 0))
		bb.alias("m0", bb.at(0, 1, 0))
		bb.alias("t0", bb.at(0, 2, 0))
		bb.key("n0", 0x00AA0000|low)
		bb.key("n1", 0x00BB0000|low)
		bb.key("nz", 0x00CC0001)
		bb.key("y", 0x00DD0002)
		return bb.finish([]string{"h0", "m0", "t0", "n0", "n1", "nz", "y"}, []string{"l005", "l040", "l070"})
	case "FL2", "FL3":
		// FL3 = FL2 plus a second chain (low hash byte 0x01) whose head bucket is exactly full: after ONE of the two free
		// buckets has been reused by chain 0 (Put(n0)), an insert into chain 1 (Put(nz)) needs the other one.
		// two entries on the free list and a chain of three exactly full buckets: LCS, then the split (all
		// keys stay, the chain is rebuilt in two new overflow buckets and the two old ones go to the free
		// list), then same-chain keys until the third bucket is full. The next same-chain insert takes ONE
		// of the two free buckets.
		for i := 0; i < 300 && bb.err == nil; i++ {
			vi, err := bb.s.DB.VerifIndex()
			if err != nil {
				bb.err = err
				break
			}
			if len(vi.FreeList) == 2 && len(vi.Chains[0]) == 3 {
				full := true
				for _, sl := range vi.Chains[0][2].Slots {
					full = full && sl.Offset != 0
				}
				if full {
					break
				}
			}
			r := fmt.Sprintf("l%03d", i)
			bb.key(r, uint32(i+1)<<8)
			bb.put(r)
		}
		if bb.err != nil {
			return nil, bb.err
		}
		if name == "FL3" {
			for i := 0; i < 31 && bb.err == nil; i++ {
				r := fmt.Sprintf("q%02d", i)
				bb.key(r, uint32(i+1)<<8|0x01)
				bb.put(r)
			}
			if bb.err == nil {
				vi, err := bb.s.DB.VerifIndex()
				if err != nil {
					return nil, err
				}
				full := func(b pogreb.VerifBucket) bool {
					for _, sl := range b.Slots {
						if sl.Offset == 0 {
							return false
						}
					}
					return true
				}
				if len(vi.FreeList) != 2 || len(vi.Chains[0]) != 3 || !full(vi.Chains[0][2]) || len(vi.Chains[1]) != 1 || !full(vi.Chains[1][0]) {
					return nil, fmt.Errorf("base FL3: layout free=%v chain0=%d chain1=%d", vi.FreeList, len(vi.Chains[0]), len(vi.Chains[1]))
				}
			}
		}
		bb.alias("h0", bb.at(0, 0, 0))
		bb.alias("m0", bb.at(0, 1, 0))
		bb.alias("t0", bb.at(0, 2, 30))
		bb.key("n0", 0x00AA0000)
		bb.key("n1", 0x00BB0000)
		bb.key("nz", 0x00CC0001)
		bb.key("y", 0x00DD0002)
		return bb.finish([]string{"h0", "m0", "t0", "n0", "n1", "nz", "y"}, []string{"l005", "l040", "l070"})
	case "FL":
		// non-empty free list and two chains whose head buckets are exactly full: SP, then the split
		// (bucket 0 keeps 31 keys, its overflow bucket goes to the free list), then bucket 1 filled to 31.
		for i := 0; i < 31; i++ {
			bb.key(fmt.Sprintf("p%02d", i), uint32(i+1)<<8|0x00)
		}
		bb.key("m2", 0x00990002)
		for i := 0; i < 31; i++ {
			bb.key(fmt.Sprintf("q%02d", i), uint32(i+1)<<8|0x01)
		}
		for i := 0; i < 31; i++ {
			bb.put(fmt.Sprintf("p%02d", i))
		}
		bb.put("m2")
		for i := 0; i < 31; i++ {
			bb.put(fmt.Sprintf("q%02d", i))
		}
		if bb.err != nil {
			return nil, bb.err
		}
		bb.alias("h0", bb.at(0, 0, 0))
		bb.alias("b1", bb.at(1, 0, 0))
		bb.key("n0", 0x00660000) // new key for bucket 0 (full head: takes an overflow bucket)
		bb.key("n1", 0x00550001) // new key for bucket 1 (full head: takes an overflow bucket)
		bb.key("n2", 0x00770000) // second new key for bucket 0
		return bb.finish([]string{"h0", "b1", "m2", "n0", "n1", "n2"}, []string{"p07", "p19", "q05"})
	case "SC":
		// level 2, split pointer 0, 4 buckets, 86 keys (the 87th splits bucket 0): bucket 0 = full head + an overflow
		// bucket with 5 keys that all STAY at the split (low three hash bits 000), bucket 1 = exactly full. The split
		// rebuilds bucket 0's chain in a new overflow bucket and frees the old one; the next insert into bucket 1
		// takes the freed bucket and overwrites it - while a scan may sit between bucket 0's head and its overflow bucket.
		var order []string
		for i := 0; i < 31; i++ {
			r := fmt.Sprintf("a%02d", i)
			bb.key(r, uint32(i+1)<<8|0x00)
			order = append(order, r)
			r = fmt.Sprintf("b%02d", i)
			bb.key(r, uint32(i+1)<<8|0x01)
			order = append(order, r)
			if i < 10 {
				r = fmt.Sprintf("c%02d", i)
				bb.key(r, uint32(i+1)<<8|0x02)
				order = append(order, r)
			}
			if i < 9 {
				r = fmt.Sprintf("d%02d", i)
				bb.key(r, uint32(i+1)<<8|0x03)
				order = append(order, r)
			}
		}
		for i := 31; i < 36; i++ {
			r := fmt.Sprintf("a%02d", i)
			bb.key(r, uint32(i+1)<<8|0x00)
			order = append(order, r)
		}
		for _, r := range order {
			bb.put(r)
		}
		if bb.err != nil {
			return nil, bb.err
		}
		if vi, err := bb.s.DB.VerifIndex(); err != nil || vi.Level != 2 || vi.SplitBucketIdx != 0 || vi.NumKeys != 86 || len(vi.Chains[0]) != 2 || len(vi.Chains[1]) != 1 {
			return nil, fmt.Errorf("base SC: unexpected index shape %+v (err %v)", vi.NumBuckets, err)
		}
		bb.alias("h0", bb.at(0, 0, 0))
		bb.alias("ov", bb.at(0, 1, 0))
		bb.alias("b1", bb.at(1, 0, 0))
		bb.key("nA", 0x00AA0003) // new key for bucket 3: the 87th key, splits bucket 0
		bb.key("nB", 0x00BB0001) // new key for the full bucket 1: needs an overflow bucket
		bb.key("nC", 0x00CC0002)
		return bb.finish([]string{"h0", "ov", "b1", "nA", "nB", "nC"}, []string{"a33", "a35", "c05"})
	case "MS":
		// mid-level split pointer AND the next new key splits: level 2, split pointer 1, 5 buckets, 108 keys;
		// the 109th key splits bucket 1, whose keys with hash&7 == 5 move to the new bucket 5 - behind the
		// position of a scan that has only drained bucket 0.
		for i := 0; i < 400 && bb.err == nil; i++ {
			vi, err := bb.s.DB.VerifIndex()
			if err != nil {
				bb.err = err
				break
			}
			if vi.Level == 2 && vi.SplitBucketIdx == 1 && float64(vi.NumKeys+1)/float64(vi.NumBuckets*31) > 0.7 {
				break
			}
			r := fmt.Sprintf("g%03d", i)
			bb.key(r, uint32(i+1)<<8|uint32(i%8))
			bb.put(r)
		}
		if bb.err != nil {
			return nil, bb.err
		}
		// a key of bucket 1 that moves to bucket 5 at the split, one that stays, one of bucket 0, one of bucket 4
		var roles []string
		for r := range bb.s.Keys {
			roles = append(roles, r)
		}
		sort.Strings(roles)
		for _, r := range roles {
			k := bb.s.Keys[r]
			h := hashforge.Sum32(k, seed)
			switch {
			case h&7 == 5 && bb.s.Keys["mv"] == nil:
				bb.s.Keys["mv"] = bb.s.Keys[r]
			case h&7 == 1 && bb.s.Keys["st"] == nil:
				bb.s.Keys["st"] = bb.s.Keys[r]
			case h&7 == 0 && bb.s.Keys["b0"] == nil:
				bb.s.Keys["b0"] = bb.s.Keys[r]
			case h&7 == 4 && bb.s.Keys["b4"] == nil:
				bb.s.Keys["b4"] = bb.s.Keys[r]
			}
		}
		bb.key("n1", 0x00AA0001) // new key for bucket 1 (stays), triggers the split
		bb.key("n5", 0x00BB0005) // new key that lands in bucket 5 after the split (bucket 1 before)
		bb.key("n3", 0x00CC0003) // new key for bucket 3
		return bb.finish([]string{"mv", "st", "b0", "b4", "n1", "n5", "n3"}, []string{"g010", "g050", "g100"})
	case "EM2":
		// a directory "bak" holds a backup taken when the log was [put a, put b] in 00000-1.psg; afterwards the
		// database was emptied, compacted (every segment removed) and closed: the next session starts the log
		// again at 00000-1.psg, so a later backup into "bak" rewrites a file of the same name with less data
		bb.key("a", 0x11110000)
		bb.key("b", 0x22220001)
		bb.key("c", 0x11110000)
		bb.key("d", 0x33330002)
		bb.s.FixedBackupDir = "bak"
		bb.put("a")
		bb.put("b")
		if bb.err == nil {
			bb.err = bb.s.Apply(Op{Kind: Backup})
		}
		bb.del("a")
		bb.del("b")
		if bb.err == nil {
			bb.err = bb.s.Apply(Op{Kind: Compact})
		}
		if bb.err == nil && len(bb.s.DB.VerifSegments()) != 0 {
			bb.err = fmt.Errorf("base EM2: compaction left %d segments", len(bb.s.DB.VerifSegments()))
		}
		return bb.finish([]string{"a", "b", "c", "d"}, nil)
	case "RU":
		// ROLL: segment ids Reused out of sequence order. Five segments are written, the first three become garbage and
		// are compacted away, the log then reuses ids 0 and 1 with fresh sequence ids: files 00000-6 (full), 00001-7
		// (current, one free record), 00003-4, 00004-5. File-name order is not sequence order; the NEXT rollover
		// after a restart must get sequence id 8.
		bb.key("a", 0x11110000)
		bb.key("b", 0x22220001)
		bb.key("c", 0x11110000)
		bb.key("d", 0x33330002)
		bb.key("e", 0x44440003)
		bb.key("n", 0x55550004)
		for _, k := range []string{"a", "b", "c", "a", "b", "c", "d", "e", "n", "a", "b", "c", "d"} {
			bb.put(k)
		}
		if bb.err == nil {
			bb.err = bb.s.Apply(Op{Kind: Compact})
		}
		for _, k := range []string{"a", "b", "c", "a", "b"} {
			bb.put(k)
		}
		if bb.err == nil {
			var names []string
			for _, sg := range bb.s.DB.VerifSegments() {
				names = append(names, sg.Name)
			}
			sort.Strings(names)
			if got := strings.Join(names, " "); got != "00000-6.psg 00001-7.psg 00003-4.psg 00004-5.psg" {
				bb.err = fmt.Errorf("base RU: segments %s", got)
			}
		}
		return bb.finish([]string{"a", "b", "c", "d", "e", "n"}, nil)
	case "LG":
		// a sealed segment with a LEGACY file name (no sequence id: "00000.psg", still accepted when opening) and
		// a current segment with a modern name
		bb.key("a", 0x11110000)
		bb.key("b", 0x22220001)
		bb.key("c", 0x11110000)
		bb.key("d", 0x33330002)
		bb.key("e", 0x44440003)
		bb.key("n", 0x55550004)
		bb.put("a")
		bb.put("b")
		bb.put("d")
		bb.put("e")
		b, err := bb.finish([]string{"a", "b", "c", "d", "e", "n"}, nil)
		if err != nil {
			return nil, err
		}
		for _, ext := range []string{"", ".pmt"} {
			if !b.Image.Exists(DBPath + "/00000-1.psg" + ext) {
				return nil, fmt.Errorf("base LG: expected file 00000-1.psg%s", ext)
			}
			if err := b.Image.Rename(DBPath+"/00000-1.psg"+ext, DBPath+"/00000.psg"+ext); err != nil {
				return nil, err
			}
		}
		return b, nil
	case "LG15":
		// ROLL1 (one record per segment): fifteen segments with LEGACY file names 00001.psg .. 00015.psg (no sequence id:
		// all replay with sequence id 0, in id order) each holding a newer value of the hot key a (b, d in between), and
		// segment id 0 free: the next rollover creates the modern segment 00000-1.psg in FRONT of them in id order.
		bb.key("a", 0x11110000)
		bb.key("b", 0x22220001)
		bb.key("c", 0x11110000)
		bb.key("d", 0x33330002)
		bb.key("e", 0x44440003)
		bb.key("n", 0x55550004)
		for i := 0; i < 16; i++ {
			switch i {
			case 5:
				bb.put("b")
			case 9:
				bb.put("d")
			default:
				bb.put("a")
			}
		}
		b, err := bb.finish([]string{"a", "b", "c", "d", "e", "n"}, nil)
		if err != nil {
			return nil, err
		}
		for _, ext := range []string{"", ".pmt"} {
			b.Image.Delete(DBPath + "/00000-1.psg" + ext) // a's oldest value, superseded
			for id := 1; id < 16; id++ {
				from := fmt.Sprintf("%s/%05d-%d.psg%s", DBPath, id, id+1, ext)
				if !b.Image.Exists(from) {
					return nil, fmt.Errorf("base LG15: expected file %s", from)
				}
				if err := b.Image.Rename(from, fmt.Sprintf("%s/%05d.psg%s", DBPath, id, ext)); err != nil {
					return nil, err
				}
			}
		}
		return b, nil
	case "SM":
		// ROLLM (= ROLL with a minimum segment size for compaction of header+60): a full segment of three
		// puts (578 bytes), a sealed SMALL segment [put a, del d, del e] (570 bytes, below the minimum) and a
		// current segment [put b, put b]: a Delete(a) makes the current segment eligible and delete-bearing,
		// so compaction has to take every older segment - including the small one that holds a's put.
		bb.key("a", 0x11110000)
		bb.key("b", 0x22220001)
		bb.key("c", 0x11110000)
		bb.key("d", 0x33330002)
		bb.key("e", 0x44440003)
		bb.key("n", 0x55550004)
		bb.put("b")
		bb.put("d")
		bb.put("e")
		bb.put("a")
		bb.del("d")
		bb.del("e")
		bb.put("b")
		bb.put("b")
		return bb.finish([]string{"a", "b", "c", "d", "e", "n"}, nil)
	case "S4":
		// ROLL: a sealed segment of three live puts (not eligible for compaction) and a current segment
		// holding an overwritten record (eligible, no delete records): a Delete slipped in between
		// compaction's pick and its sealing of the current segment puts a delete record there.
		bb.key("a", 0x11110000)
		bb.key("b", 0x22220001)
		bb.key("c", 0x11110000)
		bb.key("d", 0x33330002)
		bb.key("e", 0x44440003)
		bb.key("n", 0x55550004)
		bb.put("a")
		bb.put("b")
		bb.put("d")
		bb.put("e")
		bb.put("e")
		return bb.finish([]string{"a", "b", "c", "d", "e", "n"}, nil)
	case "T", "T3":
		// the current segment ends 10 (T) or 3 (T3: inside the 6-byte length prefix of the next record) bytes
		// before a 512-byte boundary: the next record is always torn-able
		short := int64(10)
		if name == "T3" {
			short = 3
		}
		bb.key("a", 0x11110000)
		bb.key("b", 0x22220001)
		bb.key("c", 0x11110000)
		bb.key("d", 0x33330002)
		for i := 0; i < 19; i++ {
			bb.key(fmt.Sprintf("t%02d", i), uint32(i+1)<<8|0x05)
		}
		for i := 0; i < 19; i++ {
			bb.put(fmt.Sprintf("t%02d", i))
		}
		bb.put("a")
		bb.put("b")
		// pad so that the segment ends at 1024-short
		if bb.err == nil {
			segs := bb.s.DB.VerifSegments()
			size := segs[len(segs)-1].Size
			pad := int(1024 - short - size - (6 + 8 + 4))
			if pad < 0 {
				bb.err = fmt.Errorf("base T: segment already %d bytes", size)
			} else {
				k := ForgeKey(seed, 'P', 0, 0x66660006)
				bb.s.Keys["pad"] = k
				v := strings.Repeat("p", pad)
				bb.err = bb.s.DB.Put(k, []byte(v))
				bb.s.Model[string(k)] = v
			}
		}
		return bb.finish([]string{"a", "b", "c", "d"}, []string{"t03", "pad"})
	}
	return nil, fmt.Errorf("unknown base %q", name)
}

var (
	baseMu    sync.Mutex
	baseCache = map[string]*Base{}
)

// GetBase builds (once per process) and returns a base.
func GetBase(name string, cfg Config, seed uint32) (*Base, error) {
	baseMu.Lock()
	defer baseMu.Unlock()
	k := fmt.Sprintf("%s/%s/%d", name, cfg.Name, seed)
	if b, ok := baseCache[k]; ok {
		return b, nil
	}
	b, err := BuildBase(name, cfg, seed)
	if err != nil {
		return nil, err
	}
	baseCache[k] = b
	return b, nil
}

// NewSess clones the base image into a fresh session (database not yet opened).
func (b *Base) NewSess() *Sess {
	return &Sess{
		BaseName: b.Name,
		FS:       b.Image.Clone(),
		Cfg:      b.Cfg,
		Model:    b.Model.Clone(),
		Keys:     b.Keys,
		Probe:    b.Probe,
		Seed:     b.Seed,
		NVal:     b.NVal,
	}
}

// Letters builds the alphabet {Put(k), Delete(k)} for the roles plus the extra key-less kinds.
func Letters(roles []string, kinds ...OpKind) []Op {
	var ls []Op
	for _, r := range roles {
		ls = append(ls, Op{Kind: Put, Key: r})
	}
	for _, r := range roles {
		ls = append(ls, Op{Kind: Delete, Key: r})
	}
	for _, k := range kinds {
		ls = append(ls, Op{Kind: k})
	}
	return ls
}

var _ = pogreb.ErrIterationDone
