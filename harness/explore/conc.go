package explore

import (
	"fmt"
	"github.com/akrylysov/pogreb/fs"
	"os"
	"regexp"
	"sort"
	"strings"
	"time"

	"github.com/akrylysov/pogreb"
	"github.com/akrylysov/pogreb/zzverif/refmodel"
	"github.com/akrylysov/pogreb/zzverif/simfs"
	"github.com/akrylysov/pogreb/zzverif/vsync"
)

// ThreadProg is the program of one harness thread.
type ThreadProg []Op

// Scenario is a closed concurrent system: a base state, a configuration and thread programs.
type Scenario struct {
	Name       string
	Base       string
	Cfg        string
	Threads    []ThreadProg
	FSYield    bool // every simfs call is a scheduling point
	TrackRaces bool // happens-before race detection on simfs objects
	// FailSegCreate n > 0: the n-th creation of a segment file after Open fails once with an I/O error (whoever makes it)
	FailSegCreate int
	// WrapFS: "" = simfs with its hook; "sim", "mem", "os", "osmmap" = the database runs on that file system behind a
	// YieldFS wrapper (every file-system call is a scheduling point, the same on all four); Target names the directory.
	WrapFS         string
	Target         *RealTarget
	Worker         bool // open the database with both background intervals > 0 (ticks are scheduler choices)
	TickBudget     int
	Bound          int // preemption bound (<0: unbounded)
	Record         bool
	Poison         bool
	YieldSeg       bool // with FSYield: only calls on segment files, the directory table and files outside the database directory are scheduling points (index/meta files are touched under DB.mu only and never by Backup/FileSize readers)
	Unclean        bool // the base image is left unclean (lock file present): the scenario's Open runs recovery
	NoPrivateQuiet bool // disable the thread-private-mutex reduction (set automatically when its assumption breaks)
	YieldDirOnly   bool // with FSYield: only calls that read or change the directory table (open, create, remove, rename, readdir, stat, lock) are scheduling points. Data reads/writes of one thread step then happen atomically between that thread's neighbouring points; every order of such a step relative to the other threads' steps is still explored (files here are smaller than one copy buffer)
	QuietPop       bool // reduction: iterator Next calls that only pop an already fetched item are not scheduling points
	PostClose      []Op // operations main runs after the threads joined and after Close (use-after-close probes)
}

// Describe renders the scenario.
func (sc *Scenario) Describe() string {
	var ts []string
	for i, t := range sc.Threads {
		ts = append(ts, fmt.Sprintf("T%d:[%s]", i+1, WordString(t)))
	}
	return fmt.Sprintf("%s base=%s cfg=%s %s", sc.Name, sc.Base, sc.Cfg, strings.Join(ts, " "))
}

// JSON returns a serialisable form.
func (sc *Scenario) JSON() map[string]interface{} {
	var ts [][]string
	for _, t := range sc.Threads {
		var w []string
		for _, o := range t {
			w = append(w, o.String())
		}
		ts = append(ts, w)
	}
	return map[string]interface{}{"name": sc.Name, "base": sc.Base, "cfg": sc.Cfg, "threads": ts, "fs_yield": sc.FSYield, "track_races": sc.TrackRaces,
		"worker": sc.Worker, "tick_budget": sc.TickBudget, "bound": sc.Bound, "poison": sc.Poison, "quiet_pop": sc.QuietPop, "yield_seg": sc.YieldSeg, "yield_dir_only": sc.YieldDirOnly, "no_private_quiet": sc.NoPrivateQuiet, "unclean": sc.Unclean, "post_close": WordString(sc.PostClose), "wrap_fs": sc.WrapFS, "fail_seg_create": sc.FailSegCreate}
}

// Event is one completed operation of a thread.
type Event struct {
	Thread int
	Idx    int
	Op     Op
	Call   int
	Ret    int
	Val    string
	Found  bool
	N      int
	Err    string
	Pairs  [][2]string // Scan: pairs in the order returned
	PairT  []int       // Scan/IterNext: logical time at which the Next call that returned the pair returned
	LogPos int         // length of the FS op log when the call returned
	LogAt  int         // length of the FS op log when the call was made
}

// ConcRun is the outcome of one execution of a scenario.
type ConcRun struct {
	X          *vsync.Exec
	Events     []Event
	OpenErr    string
	Final      Model // contents at quiescence (after the threads joined), nil if the database was closed by a thread
	FinalMsg   string
	CloseErr   string
	Closed     bool // a thread called Close
	Sess       *Sess
	Reopened   Model // contents after Close and a fresh Open
	ReopenMsg  string
	BackupDirs []string
	QuietBad   bool   // a Next call treated as a pure pop by the QuietPop reduction made a file-system call
	ReplayMsg  string // non-empty if the independent replay of the segment files at quiescence differs from the contents
}

// LinOps converts the events to a history for the linearizability checker.
func (r *ConcRun) LinOps(keys map[string][]byte) []refmodel.LinOp {
	var ops []refmodel.LinOp
	for _, e := range r.Events {
		o := refmodel.LinOp{Thread: e.Thread, Call: e.Call, Ret: e.Ret, Key: string(keys[e.Op.Key]), Val: e.Val, Found: e.Found, N: e.N}
		switch e.Op.Kind {
		case Put:
			o.Kind = "Put"
		case Delete:
			o.Kind = "Delete"
		case Get, GetAppend:
			o.Kind = "Get"
		case Has:
			o.Kind = "Has"
		case Count:
			o.Kind = "Count"
		default:
			continue
		}
		if e.Err != "" {
			if o.Kind == "Put" || o.Kind == "Delete" {
				o.Maybe = true
			} else {
				continue
			}
		}
		ops = append(ops, o)
	}
	return ops
}

// Signature summarises what the execution observed (for outcome counting).
func (r *ConcRun) Signature() string {
	var parts []string
	evs := append([]Event(nil), r.Events...)
	sort.Slice(evs, func(i, j int) bool {
		if evs[i].Thread != evs[j].Thread {
			return evs[i].Thread < evs[j].Thread
		}
		return evs[i].Idx < evs[j].Idx
	})
	for _, e := range evs {
		switch e.Op.Kind {
		case Get, GetAppend, Has, Count, Scan, FileSize:
			ph := ""
			if len(e.Pairs) > 0 {
				ph = fmt.Sprintf("%x", Hash64(fmt.Sprint(e.Pairs)))
			}
			parts = append(parts, fmt.Sprintf("%d.%d=%s/%v/%d/%d%s", e.Thread, e.Idx, e.Val, e.Found, e.N, len(e.Pairs), ph))
		}
		if e.Err != "" {
			parts = append(parts, fmt.Sprintf("%d.%d!%s", e.Thread, e.Idx, e.Err))
		}
	}
	var fk []string
	for k, v := range r.Final {
		fk = append(fk, fmt.Sprintf("%x=%s", k, v))
	}
	sort.Strings(fk)
	return strings.Join(parts, ",") + "|" + strings.Join(fk, ",")
}

// sharedIter is the iterator shared by IterNext operations of all threads.
type concState struct {
	iter     *pogreb.ItemIterator
	quietPop bool
	fsCalls  func() int // number of file-system calls made so far
	quietBad *bool      // set when a Next call assumed to be a pure pop touched the file system
}

// iterNext calls Next; with the QuietPop reduction a call that only pops an item fetched earlier runs
// without scheduling points (its transitions touch iterator-local state only and commute with every
// other thread; what it returns was fixed when the bucket was fetched).
func iterNext(it *pogreb.ItemIterator, st *concState) (k, v []byte, err error) {
	if st.quietPop {
		q := 0
		vsync.Quiet(func() { q = it.VerifQueued() })
		if q > 0 {
			before := st.fsCalls()
			vsync.Quiet(func() { k, v, err = it.Next() })
			if st.fsCalls() != before {
				// the independence assumption behind the reduction does not hold for this build: the
				// exploration is repeated without the reduction (ExploreScenario)
				*st.quietBad = true
			}
			return
		}
	}
	return it.Next()
}

func execOp(s *Sess, st *concState, thread, idx int, o Op, r *ConcRun) {
	e := Event{Thread: thread, Idx: idx, Op: o, LogAt: len(s.FS.Log)}
	e.Call = vsync.LogicalTime()
	db := s.DB
	seterr := func(err error) {
		if err != nil {
			e.Err = err.Error()
		}
	}
	switch o.Kind {
	case Put:
		k := append([]byte(nil), s.Keys[o.Key]...)
		v := []byte(fmt.Sprintf("%d%03d", thread, idx))
		e.Val = string(v)
		seterr(db.Put(k, v))
		for i := range k {
			k[i] = 0xEE
		}
		for i := range v {
			v[i] = 0xEE
		}
	case Delete:
		seterr(db.Delete(append([]byte(nil), s.Keys[o.Key]...)))
	case Get:
		v, err := db.Get(s.Keys[o.Key])
		seterr(err)
		e.Val, e.Found = string(v), v != nil
	case GetAppend:
		buf := make([]byte, 3, 32)
		copy(buf, "PFX")
		v, err := db.GetAppend(s.Keys[o.Key], buf)
		seterr(err)
		if v != nil {
			if !strings.HasPrefix(string(v), "PFX") {
				e.Err = fmt.Sprintf("GetAppend lost the caller's prefix: %q", v)
			}
			e.Val, e.Found = strings.TrimPrefix(string(v), "PFX"), true
		}
	case Has:
		f, err := db.Has(s.Keys[o.Key])
		seterr(err)
		e.Found = f
	case Count:
		e.N = int(db.Count())
	case Scan:
		it := db.Items()
		for n := 0; n < 100000; n++ {
			k, v, err := iterNext(it, st)
			if err == pogreb.ErrIterationDone {
				break
			}
			if err != nil {
				seterr(err)
				break
			}
			e.Pairs = append(e.Pairs, [2]string{string(k), string(v)})
			e.PairT = append(e.PairT, vsync.LogicalTime())
			if n == 99999 {
				e.Err = "scan did not terminate within 100000 Next calls"
			}
		}
		// Further calls: on a quiescent database they must keep returning ErrIterationDone (checked by
		// the quiescent oracles); with concurrent writers a later index split may legitimately add a
		// bucket behind the scan position, so a pair is recorded (and must be truthful), only an error is not accepted.
		for i := 0; i < 2 && e.Err == ""; i++ {
			k, v, err := iterNext(it, st)
			if err == nil {
				e.Pairs = append(e.Pairs, [2]string{string(k), string(v)})
				e.PairT = append(e.PairT, vsync.LogicalTime())
				e.N++ // pairs returned after ErrIterationDone
			} else if err != pogreb.ErrIterationDone {
				e.Err = fmt.Sprintf("Next after the end of the scan returned %v", err)
			}
		}
	case IterNext:
		if st.iter == nil {
			st.iter = db.Items()
		}
		k, v, err := iterNext(st.iter, st)
		if err != nil && err != pogreb.ErrIterationDone {
			seterr(err)
		}
		if err == nil {
			e.Pairs = append(e.Pairs, [2]string{string(k), string(v)})
			e.PairT = append(e.PairT, vsync.LogicalTime())
		} else if err == pogreb.ErrIterationDone {
			e.N = 1 // iteration done
		}
	case Compact:
		cr, err := db.Compact()
		seterr(err)
		e.N = cr.CompactedSegments
	case Sync:
		seterr(db.Sync())
	case Backup:
		dir := fmt.Sprintf("bak-%d-%d", thread, idx)
		e.Val = dir
		err := db.Backup(dir)
		seterr(err)
		if err == nil {
			r.BackupDirs = append(r.BackupDirs, dir)
		}
	case FileSize:
		n, err := db.FileSize()
		seterr(err)
		e.N = int(n)
	case Metrics:
		m := db.Metrics()
		e.N = int(m.Puts.Value())
	case Close:
		err := db.Close()
		seterr(err)
		if err == nil {
			r.Closed = true
		}
	case Open2:
		// a competing Open of the same directory (second handle); on success its contents are read and it is closed again
		db2, err := pogreb.Open(DBPath, s.Cfg.Options(s.FS))
		if err != nil {
			seterr(err)
			break
		}
		e.Found = true
		e.N = int(db2.Count())
		it := db2.Items()
		for n := 0; n < 100000; n++ {
			k, v, err := it.Next()
			if err != nil {
				if err != pogreb.ErrIterationDone {
					e.Val = "scan error: " + err.Error()
				}
				break
			}
			e.Pairs = append(e.Pairs, [2]string{string(k), string(v)})
		}
		e.PairT = append(e.PairT, vsync.LogicalTime()) // when the second handle was open and read
		if err := db2.Close(); err != nil {
			e.Val = "Close of the second handle: " + err.Error()
		}
	}
	e.Ret = vsync.LogicalTime()
	e.LogPos = len(s.FS.Log)
	r.Events = append(r.Events, e)
}

// RunScenario executes the scenario once under the scheduler, replaying prefix.
func RunScenario(sc *Scenario, base *Base, prefix []int, keepTrace bool, sleep ...[]int) *ConcRun {
	r := &ConcRun{}
	s := base.NewSess()
	r.Sess = s
	if sc.WrapFS != "" && sc.WrapFS != "sim" {
		if sc.Target == nil {
			sc.Target = &RealTarget{Kind: sc.WrapFS, Dir: fmt.Sprintf("/dev/shm/pogverif-rfs-%d-%s", os.Getpid(), sc.WrapFS)}
			if sc.WrapFS == "mem" {
				sc.Target.Dir = fmt.Sprintf("pogverif-rfs-%d", os.Getpid())
			}
		}
		if sc.Unclean {
			s.FS.SetBytes(DBPath+"/lock", nil)
		}
		if err := sc.Target.Reset(s.FS); err != nil {
			r.OpenErr = "harness: copying the base image to the target: " + err.Error()
			r.X = &vsync.Exec{}
			return r
		}
		defer sc.Target.Clean()
	}
	s.FS.Record = sc.Record
	s.FS.Poison = sc.Poison
	curOp := map[int]int{}
	s.FS.TagFn = func() (int, int) { t := vsync.ThreadID(); return curOp[t], t }
	if sc.FSYield || sc.TrackRaces {
		s.FS.Hook = func(label, obj string, write bool, lo, hi int64) {
			if strings.HasPrefix(obj, "h:") {
				// access to the state of one open handle (mapping/length, sequential offset): the part of
				// a file that no FileSystem makes safe for concurrent use - happens-before race detection
				if sc.TrackRaces {
					vsync.RecordAccess(obj, write, 0, 0, label)
				}
				return
			}
			if sc.FSYield {
				if sc.YieldDirOnly && obj != "dir" {
					return
				}
				if sc.YieldSeg && obj != "dir" {
					n := s.FS.NameOfObj(obj)
					if strings.HasPrefix(n, DBPath+"/") && !strings.HasSuffix(n, refmodel.SegmentExt) {
						return
					}
					if n != "" && !strings.HasPrefix(n, DBPath+"/") {
						return // a file of the backup destination: only the backup thread ever touches it
					}
				}
				vsync.Yield("fs:" + label)
			}
		}
	}
	st := &concState{quietPop: sc.QuietPop, fsCalls: func() int { return s.FS.Stats.Calls }, quietBad: &r.QuietBad}
	main := func() {
		if sc.Unclean {
			s.FS.SetBytes(DBPath+"/lock", nil)
		}
		opts := s.Cfg.Options(s.FS)
		dbpath := DBPath
		if sc.WrapFS != "" {
			var inner fs.FileSystem = s.FS
			if sc.WrapFS != "sim" {
				inner, dbpath = sc.Target.FS(), sc.Target.Dir
				s.SkipStructure = true // the structural walk reads segment files from simfs
			}
			opts = s.Cfg.Options(&YieldFS{Inner: inner})
		}
		if sc.Worker {
			opts.BackgroundSyncInterval = 1000 * time.Hour
			opts.BackgroundCompactionInterval = 1000 * time.Hour
		}
		db, err := pogreb.Open(dbpath, opts)
		if err != nil {
			r.OpenErr = err.Error()
			return
		}
		s.DB = db
		if sc.FailSegCreate > 0 {
			s.FS.FailCreateSuffix, s.FS.FailCreateNth = refmodel.SegmentExt, sc.FailSegCreate
		}
		var fns []func()
		for ti, prog := range sc.Threads {
			ti, prog := ti, prog
			fns = append(fns, func() {
				for i, o := range prog {
					curOp[vsync.ThreadID()] = (ti+1)*100 + i
					execOp(s, st, ti+1, i, o, r)
				}
			})
		}
		vsync.Parallel(fns...)
		if !r.Closed {
			all, err := Model(nil), error(nil)
			if !sc.Worker {
				// (with a background worker the database is not quiescent until Close has stopped it:
				// the contents are then read from the reopened directory instead)
				all, err = ReadAll(db)
			}
			if sc.Worker {
			} else if err != nil {
				r.FinalMsg = err.Error()
			} else {
				r.Final = all
				s.Model = all
				r.FinalMsg = s.Check()
				// what a recovery would rebuild from the log must be what the database shows now
				if sc.WrapFS != "" && sc.WrapFS != "sim" {
					// (the segment files are not on simfs)
				} else if d := refmodel.ReplayDir(SegmentFiles(s.FS)); d.Err != "" {
					r.ReplayMsg = "independent replay: " + d.Err
				} else if got := ModelFromDecode(d); !all.Equal(got) {
					r.ReplayMsg = "independent replay of the segment files (what a crash recovery would rebuild) differs from the contents at quiescence: " + all.Diff(got, s.KeyName)
				}
			}
			if err := db.Close(); err != nil {
				r.CloseErr = err.Error()
			}
		}
		for i, o := range sc.PostClose {
			execOp(s, st, 0, 900+i, o, r)
		}
	}
	cfg := vsync.Sched{KeepTrace: keepTrace, TrackRaces: sc.TrackRaces, TickBudget: sc.TickBudget, PrivateQuiet: !sc.NoPrivateQuiet}
	if len(sleep) > 0 {
		cfg.UseSleep = true
		cfg.SleepAt = sleep[0]
	}
	r.X = vsync.Run(prefix, cfg, main)
	s.FS.Hook = nil
	s.FS.TagFn = nil
	return r
}

// ReopenAfter opens the scenario's file system again (pass-through mode) and reads the contents.
func (r *ConcRun) ReopenAfter() {
	s := r.Sess
	img := s.FS.Clone()
	rec := RecoverImage(img, s.Cfg, s.Keys, s.Probe, s.Seed, RecoverOpts{})
	if rec.OpenErr != "" {
		r.ReopenMsg = "Open after the scenario failed: " + rec.OpenErr
		return
	}
	r.Reopened = rec.Contents
	if rec.Internal != "" {
		r.ReopenMsg = "database reopened after the scenario is inconsistent: " + rec.Internal
	}
}

// ExploreStats reports what an exploration covered.
type ExploreStats struct {
	Execs          int64
	Points         int64
	Truncated      bool
	MaxDepth       int
	CompletedBound int   // -1: unbounded (complete), -2: not even bound 0 completed, else the last completed preemption bound
	LastPassExecs  int64 // executions of the last completed pass
}

// BoundName renders CompletedBound.
func (st ExploreStats) BoundName() string {
	switch st.CompletedBound {
	case -1:
		return "unbounded"
	case -2:
		return "none"
	}
	return fmt.Sprint(st.CompletedBound)
}

// ExploreScenario enumerates all interleavings of the scenario within its preemption bound,
// evaluating check on every execution. Abnormal ends (panic, deadlock, horizon) are violations of
// class "panic"/"deadlock"/"horizon" unless accept says otherwise. The first schedule is executed twice and
// compared (determinism proof); a violation is re-executed 5 times from its recorded choices
// before it is reported.
func ExploreScenario(c *Ctx, sc *Scenario, base *Base, slice time.Time, check func(r *ConcRun) (class, msg string)) (*Violation, ExploreStats) {
	var st ExploreStats
	for _, t := range append(append([]ThreadProg(nil), sc.Threads...), sc.PostClose) {
		for _, o := range t {
			if o.Key != "" && base.Keys[o.Key] == nil {
				c.HarnessError("scenario %s uses key role %q which base %s does not define", sc.Name, o.Key, base.Name)
			}
		}
	}
	// determinism proof
	a := RunScenario(sc, base, nil, true)
	b := RunScenario(sc, base, nil, true)
	if strings.Join(a.X.Trace, ";") != strings.Join(b.X.Trace, ";") || a.Signature() != b.Signature() {
		c.HarnessError("scenario %s: the same schedule produced two different executions (harness nondeterminism)\n%v\n%v", sc.Describe(), a.X.Trace, b.X.Trace)
	}
	var viol *Violation
	full := func(r *ConcRun) (string, string) {
		x := r.X
		switch {
		case x.Divergence != "":
			c.HarnessError("scenario %s: replay divergence: %s", sc.Describe(), x.Divergence)
		case x.Panic != "":
			return "panic", "panic in thread " + x.PanicThread + ": " + panicSummary(x.Panic)
		case x.Deadlock != "":
			return "deadlock", "deadlock: " + x.Deadlock
		case x.Horizon:
			return "horizon", "execution did not finish within the step horizon (livelock?)"
		}
		if r.OpenErr != "" {
			return "open", "Open failed: " + r.OpenErr
		}
		return check(r)
	}
	quietBad := false
	privateBad := false
	run := func(prefix []int, sleep []int) *vsync.Exec {
		r := RunScenario(sc, base, prefix, false, sleep)
		if r.QuietBad {
			quietBad = true
		}
		if r.X.PrivateBroken && !sc.NoPrivateQuiet {
			privateBad = true
		}
		if r.X.SleepBlocked {
			c.Add("sleep_blocked", 1)
			return r.X
		}
		c.Add("executions", 1)
		c.Add("transitions", int64(r.X.Steps))
		c.Outcome(sc.Name, r.Signature())
		c.Distinct("outcome", Hash64(sc.Describe(), r.Signature(), r.Sess.FS.Hash()))
		class, msg := full(r)
		if msg != "" && viol == nil {
			// re-execute 5 times from the recorded choices
			for i := 0; i < 5; i++ {
				r2 := RunScenario(sc, base, r.X.Choices, false)
				c2, m2 := full(r2)
				if c2 != class || m2 != msg {
					c.HarnessError("scenario %s: violation %q did not reproduce from its schedule (got %q)", sc.Describe(), msg, m2)
				}
			}
			tr := RunScenario(sc, base, r.X.Choices, true)
			viol = &Violation{
				Key:    fmt.Sprintf("%s %s", class, sc.Describe()),
				What:   fmt.Sprintf("scenario %s, schedule %v (%d preemptions): %s", sc.Describe(), r.X.Choices, preemptions(r.X), msg),
				Size:   len(sc.Describe())/10 + 1000*preemptions(r.X) + len(r.X.Choices),
				Replay: map[string]interface{}{"kind": "schedule", "scenario": sc.JSON(), "choices": r.X.Choices, "class": class, "observed": msg, "trace": tr.X.Trace, "events": eventsJSON(tr)},
			}
		}
		return r.X
	}
	// iterative preemption bounding: 0, 1, 2, ... until a pass skips nothing (= unbounded) or the slice ends
	deadline := c.Deadline
	if !slice.IsZero() && slice.Before(deadline) {
		deadline = slice
	}
	st.CompletedBound = -2 // nothing completed
	type pass struct {
		bound int
		cap   int64
	}
	const fullB = 1 << 20
	passes := []pass{{sc.Bound, 0}}
	if sc.Bound < 0 {
		// cheap low bounds first (so that a time slice always completes something), then a capped attempt
		// at the complete space (small scenarios finish here), then iterative bounding up to the complete space
		passes = []pass{{0, 0}, {1, 0}, {fullB, 5000}, {2, 0}, {3, 0}, {4, 0}, {6, 0}, {8, 0}, {12, 0}, {fullB, 0}}
	}
	for _, p := range passes {
		ex := &vsync.Explorer{Bound: p.bound, Deadline: deadline, MaxExecs: p.cap, Run: run, Check: func(x *vsync.Exec) bool { return viol == nil && !quietBad && !privateBad }}
		ex.Explore()
		if privateBad && !sc.NoPrivateQuiet {
			// a mutex whose scheduling points were skipped as thread-private is shared after all: explore without that reduction
			c.Add("private_mutex_reduction_dropped", 1)
			sc2 := *sc
			sc2.NoPrivateQuiet = true
			v2, st2 := ExploreScenario(c, &sc2, base, slice, check)
			st2.Execs += st.Execs + ex.Execs
			return v2, st2
		}
		if quietBad && sc.QuietPop {
			// the build under test reads shared state in a Next call that only pops: explore without the reduction
			c.Add("quietpop_reduction_dropped", 1)
			sc2 := *sc
			sc2.QuietPop = false
			v2, st2 := ExploreScenario(c, &sc2, base, slice, check)
			st2.Execs += st.Execs + ex.Execs
			return v2, st2
		}
		st.Execs += ex.Execs
		st.Points += ex.Points
		if ex.MaxDepth > st.MaxDepth {
			st.MaxDepth = ex.MaxDepth
		}
		if viol != nil {
			break
		}
		if ex.Truncated {
			if p.cap > 0 && ex.Execs >= p.cap && time.Now().Before(deadline) {
				continue // the capped attempt did not finish: go on with iterative bounding
			}
			st.Truncated = true
			break
		}
		st.CompletedBound = p.bound
		st.LastPassExecs = ex.Execs
		if ex.Skipped == 0 {
			st.CompletedBound = -1 // unbounded: no alternative was cut by the bound
			break
		}
	}
	if st.Truncated {
		c.MarkTruncated()
	}
	return viol, st
}

func preemptions(x *vsync.Exec) int {
	n := 0
	for _, p := range x.Points {
		if p.Kind == vsync.ThreadChoice && p.RunningEnabled && p.Chosen != 0 {
			n++
		}
	}
	return n
}

var pogrebFrame = regexp.MustCompile(`github\.com/akrylysov/pogreb(?:/fs)?\.(?:\(\*?\w+\)\.)?\w+(?:\.func\d+)*`)

// panicSummary renders a panic deterministically: its value and the pogreb functions on the stack
// (no goroutine numbers, addresses or argument values, which differ between runs of one schedule).
func panicSummary(p string) string {
	lines := strings.SplitN(p, "\n", 2)
	val := lines[0]
	var frames []string
	if len(lines) > 1 {
		for _, f := range pogrebFrame.FindAllString(lines[1], -1) {
			if strings.Contains(f, "zzverif") {
				continue
			}
			if len(frames) == 0 || frames[len(frames)-1] != f {
				frames = append(frames, f)
			}
			if len(frames) == 8 {
				break
			}
		}
	}
	return val + " | stack: " + strings.Join(frames, " < ")
}

func firstLines(s string, n int) string {
	l := strings.Split(s, "\n")
	if len(l) > n {
		l = l[:n]
	}
	return strings.Join(l, " | ")
}

func eventsJSON(r *ConcRun) []string {
	var es []string
	for _, e := range r.Events {
		es = append(es, fmt.Sprintf("T%d.%d %s call=%d ret=%d val=%q found=%v n=%d err=%q pairs=%d", e.Thread, e.Idx, e.Op, e.Call, e.Ret, e.Val, e.Found, e.N, e.Err, len(e.Pairs)))
	}
	return es
}

var _ = simfs.New
