package explore

import (
	"fmt"

	"github.com/akrylysov/pogreb/zzverif/refmodel"
	"github.com/akrylysov/pogreb/zzverif/simfs"
)

// Recovered is what a fresh Open of a disk image yields.
type Recovered struct {
	OpenErr  string
	Contents Model
	Internal string     // non-empty if the reopened database is internally inconsistent (reads vs scan, structure)
	Decoder  string     // non-empty if contents differ from the independent decoder's replay of the image
	After    *simfs.FS  // the file system after the recovering Open and a clean Close (only when keepAfter)
	OpenLog  []simfs.Op // op log of the recovering Open (only when keepLog)
	SizeMsg  string     // non-empty if a segment's in-memory size differs from its file length after Open
}

// RecoverOpts selects what RecoverImage records.
type RecoverOpts struct {
	KeepAfter bool
	KeepLog   bool
	Decoder   bool
}

// RecoverImage opens the image with a fresh Open and reads everything out. The image is consumed.
func RecoverImage(img *simfs.FS, cfg Config, keys map[string][]byte, probe []string, seed uint32, o RecoverOpts) *Recovered {
	r := &Recovered{}
	var want Model
	if o.Decoder {
		d := refmodel.ReplayDir(SegmentFiles(img))
		if d.Err == "" {
			want = ModelFromDecode(d)
		}
	}
	s := &Sess{FS: img, Cfg: cfg, Keys: keys, Probe: probe, Seed: seed, BaseName: "(image)", quietPanic: true}
	if o.KeepLog {
		img.Record = true
	}
	if err := s.OpenDB(); err != nil {
		r.OpenErr = err.Error()
		return r
	}
	if o.KeepLog {
		r.OpenLog = append([]simfs.Op(nil), img.Log...)
	}
	for _, sg := range s.DB.VerifSegments() {
		if l := int64(len(img.Bytes(DBPath + "/" + sg.Name))); l != sg.Size {
			r.SizeMsg = fmt.Sprintf("segment %s: in-memory size %d, file length %d", sg.Name, sg.Size, l)
		}
	}
	var all Model
	if perr := s.protect("reading the recovered database", func() error {
		var err error
		all, err = ReadAll(s.DB)
		if err != nil {
			r.Internal = err.Error()
			all = Model{}
		}
		return nil
	}); perr != nil {
		r.Internal = perr.Error()
		all = Model{}
	}
	r.Contents = all
	s.Model = all
	if r.Internal == "" {
		r.Internal = s.Check()
	}
	if want != nil && !want.Equal(all) {
		r.Decoder = "recovered contents differ from the independent decoder's replay of the image: " + want.Diff(all, s.KeyName)
	}
	if o.KeepAfter {
		if err := s.DB.Close(); err != nil {
			r.Internal = "Close after recovery: " + err.Error()
		}
		r.After = img
	} else {
		_ = s.DB.Close()
	}
	return r
}

// Admissible decides the C03 oracle: the recovered contents must equal M0 (acknowledged prefix) or
// M1 (prefix plus the whole in-flight operation) - as a whole; onlyM1 when the operation had returned.
func Admissible(r *Recovered, m0, m1 Model, onlyM1 bool, names func(string) string) string {
	if r.OpenErr != "" {
		return "Open of the crash image failed: " + r.OpenErr
	}
	if r.Internal != "" {
		return "reopened database is inconsistent: " + r.Internal
	}
	if m1.Equal(r.Contents) {
		return ""
	}
	if !onlyM1 && m0.Equal(r.Contents) {
		return ""
	}
	if onlyM1 || m0.Equal(m1) {
		return "recovered contents differ from the acknowledged state: " + m1.Diff(r.Contents, names)
	}
	return "recovered contents are neither the state before nor after the in-flight operation: vs before: " + m0.Diff(r.Contents, names) + " | vs after: " + m1.Diff(r.Contents, names)
}
