package explore

import (
	"fmt"
	"os"
	"path/filepath"
	"strings"

	"github.com/akrylysov/pogreb/fs"
	"github.com/akrylysov/pogreb/zzverif/simfs"
	"github.com/akrylysov/pogreb/zzverif/vsync"
)

// YieldFS wraps any fs.FileSystem: every call is a scheduling point of the controlled scheduler before it is made,
// and calls that hand data to the caller (Slice, ReadAt, Read) are one more after they returned - "A's Slice
// returned, B runs, A looks at its bytes" is a schedule. The wrapper is the same for simfs, fs.Mem, fs.OS and
// fs.OSMMap, so one choice sequence names the same interleaving of the database's file-system calls on all four.
type YieldFS struct {
	Inner fs.FileSystem
}

var _ fs.FileSystem = (*YieldFS)(nil)

// call makes one call of the wrapped file system: a scheduling point, then the call itself with the file system's
// own synchronisation (fs.Mem's mutex, rewritten to the scheduler's like every sync import) not offered as further
// points - it is never held across a call boundary, so it never blocks, and the four file systems keep the same
// sequence of scheduling points.
func call(label string, f func()) {
	vsync.Yield(label)
	vsync.Quiet(f)
}

func (y *YieldFS) OpenFile(name string, flag int, perm os.FileMode) (f fs.File, err error) {
	call("fs:OpenFile", func() { f, err = y.Inner.OpenFile(name, flag, perm) })
	if err != nil {
		return nil, err
	}
	return &yieldFile{f}, nil
}

func (y *YieldFS) Stat(name string) (fi os.FileInfo, err error) {
	call("fs:Stat", func() { fi, err = y.Inner.Stat(name) })
	return
}

func (y *YieldFS) Remove(name string) (err error) {
	call("fs:Remove", func() { err = y.Inner.Remove(name) })
	return
}

func (y *YieldFS) Rename(o, n string) (err error) {
	call("fs:Rename", func() { err = y.Inner.Rename(o, n) })
	return
}

func (y *YieldFS) ReadDir(name string) (es []os.DirEntry, err error) {
	call("fs:ReadDir", func() { es, err = y.Inner.ReadDir(name) })
	return
}

func (y *YieldFS) CreateLockFile(name string, perm os.FileMode) (l fs.LockFile, existing bool, err error) {
	call("fs:CreateLockFile", func() { l, existing, err = y.Inner.CreateLockFile(name, perm) })
	return
}

func (y *YieldFS) MkdirAll(path string, perm os.FileMode) (err error) {
	call("fs:MkdirAll", func() { err = y.Inner.MkdirAll(path, perm) })
	return
}

type yieldFile struct{ f fs.File }

func (h *yieldFile) Close() (err error) {
	call("fs:Close", func() { err = h.f.Close() })
	return
}
func (h *yieldFile) Read(p []byte) (n int, err error) {
	call("fs:Read", func() { n, err = h.f.Read(p) })
	vsync.Yield("fs:Read:ret")
	return
}
func (h *yieldFile) ReadAt(p []byte, off int64) (n int, err error) {
	call("fs:ReadAt", func() { n, err = h.f.ReadAt(p, off) })
	vsync.Yield("fs:ReadAt:ret")
	return
}
func (h *yieldFile) Seek(off int64, whence int) (n int64, err error) {
	call("fs:Seek", func() { n, err = h.f.Seek(off, whence) })
	return
}
func (h *yieldFile) Write(p []byte) (n int, err error) {
	call("fs:Write", func() { n, err = h.f.Write(p) })
	return
}
func (h *yieldFile) WriteAt(p []byte, off int64) (n int, err error) {
	call("fs:WriteAt", func() { n, err = h.f.WriteAt(p, off) })
	return
}
func (h *yieldFile) Stat() (fi os.FileInfo, err error) {
	call("fs:FileStat", func() { fi, err = h.f.Stat() })
	return
}
func (h *yieldFile) Sync() (err error) {
	call("fs:Sync", func() { err = h.f.Sync() })
	return
}
func (h *yieldFile) Truncate(size int64) (err error) {
	call("fs:Truncate", func() { err = h.f.Truncate(size) })
	return
}
func (h *yieldFile) Slice(start, end int64) (b []byte, err error) {
	call("fs:Slice", func() { b, err = h.f.Slice(start, end) })
	vsync.Yield("fs:Slice:ret")
	return
}

// RealTarget is a directory on one of the repository's own file systems that a scenario's base image is copied to.
type RealTarget struct {
	Kind string // "mem", "os", "osmmap"
	Dir  string
}

// FS returns the file system of the target.
func (t *RealTarget) FS() fs.FileSystem {
	switch t.Kind {
	case "mem":
		return fs.Mem
	case "os":
		return fs.OS
	}
	return fs.OSMMap
}

// Clean removes every file of the target directory.
func (t *RealTarget) Clean() {
	fsys := t.FS()
	if ents, err := fsys.ReadDir(t.Dir); err == nil {
		for _, e := range ents {
			_ = fsys.Remove(filepath.Join(t.Dir, e.Name()))
		}
	}
	if t.Kind != "mem" {
		_ = os.RemoveAll(t.Dir)
	}
}

// Reset makes the target directory a copy of the database directory of img.
func (t *RealTarget) Reset(img *simfs.FS) error {
	t.Clean()
	fsys := t.FS()
	if err := fsys.MkdirAll(t.Dir, 0755); err != nil {
		return err
	}
	for _, name := range img.NamesIn(DBPath) {
		if name == "lock" {
			// an unclean image: the next Open must find the lock file
			if t.Kind == "mem" {
				l, _, err := fsys.CreateLockFile(filepath.Join(t.Dir, name), 0644)
				if err != nil {
					return err
				}
				_ = l // fs.Mem forgets nothing: the file stays
				continue
			}
			if err := os.WriteFile(filepath.Join(t.Dir, name), nil, 0644); err != nil {
				return err
			}
			continue
		}
		f, err := fsys.OpenFile(filepath.Join(t.Dir, name), os.O_CREATE|os.O_RDWR|os.O_TRUNC, 0640)
		if err != nil {
			return err
		}
		if _, err := f.Write(img.Bytes(DBPath + "/" + name)); err != nil {
			return err
		}
		if err := f.Close(); err != nil {
			return err
		}
	}
	return nil
}

func (t *RealTarget) String() string {
	return fmt.Sprintf("fs=%s", strings.ToLower(t.Kind))
}
