package explore

import (
	"crypto/sha256"
	"encoding/binary"
	"encoding/json"
	"fmt"
	"os"
	"os/exec"
	"path/filepath"
	"runtime/debug"
	"runtime/pprof"
	"sort"
	"strconv"
	"strings"
	"sync"
	"syscall"
	"time"
)

// VerifDir is the root of the verification tree.
var VerifDir = "/verif"

// Violation is one property violation found by a check.
type Violation struct {
	Property string                 `json:"property"`
	Key      string                 `json:"key"`  // narrow identification (matched against known_findings.json)
	What     string                 `json:"what"` // human-readable description
	Size     int                    `json:"size"` // for ordering: smaller = simpler counterexample
	Replay   map[string]interface{} `json:"replay"`
}

// Result is what one worker reports.
type Result struct {
	Counters   map[string]int64            `json:"counters"`
	Distinct   map[string][]uint64         `json:"distinct"`
	Samples    []interface{}               `json:"samples"`
	Violations []Violation                 `json:"violations"`
	Notes      map[string]string           `json:"notes"`
	Outcomes   map[string]map[string]int64 `json:"outcomes"`
	Caps       []string                    `json:"caps"`
	Truncated  bool                        `json:"truncated"`
	JobsSeen   int                         `json:"jobs_seen"`  // number of Mine() draws (must agree between workers that ran to the end)
	JobsTaken  []int                       `json:"jobs_taken"` // indices of the draws this worker took
	HarnessErr string                      `json:"harness_err"`
}

// Ctx is the context a check's worker runs in.
type Ctx struct {
	Prop     string
	Tier     string
	Seed     int64
	Shard    int
	NShards  int
	Deadline time.Time
	Args     map[string]string

	mu       sync.Mutex
	res      Result
	distinct map[string]map[uint64]struct{}
	job      int
	maxViol  int
	known    map[string]bool
}

// Thorough reports whether the thorough tier was requested.
func (c *Ctx) Thorough() bool { return c.Tier == "thorough" }

// Mine deals jobs round-robin to shards: it returns true if the next job belongs to this worker.
func (c *Ctx) Mine() bool {
	i := c.job
	c.job++
	c.res.JobsSeen = c.job
	if i%c.NShards == c.Shard {
		c.res.JobsTaken = append(c.res.JobsTaken, i)
		return true
	}
	return false
}

// Expired reports whether the internal time budget is used up (the caller stops and the run is
// reported as not exhaustive; never an alarm).
func (c *Ctx) Expired() bool {
	if time.Now().After(c.Deadline) {
		c.mu.Lock()
		c.res.Truncated = true
		c.mu.Unlock()
		return true
	}
	return false
}

// MarkTruncated records that some exploration was cut short by its time slice (never an alarm).
func (c *Ctx) MarkTruncated() { c.res.Truncated = true }

// Add adds n to a named counter.
func (c *Ctx) Add(name string, n int64) {
	c.res.Counters[name] += n
}

// Hash64 hashes strings to a 64-bit value.
func Hash64(parts ...string) uint64 {
	h := sha256.New()
	for _, p := range parts {
		var l [4]byte
		binary.LittleEndian.PutUint32(l[:], uint32(len(p)))
		h.Write(l[:])
		h.Write([]byte(p))
	}
	return binary.LittleEndian.Uint64(h.Sum(nil))
}

// Distinct records a member of a class whose distinct count is reported; it returns true if new.
func (c *Ctx) Distinct(class string, h uint64) bool {
	m := c.distinct[class]
	if m == nil {
		m = map[uint64]struct{}{}
		c.distinct[class] = m
	}
	if _, ok := m[h]; ok {
		return false
	}
	m[h] = struct{}{}
	return true
}

// Sample keeps the first few samples per worker.
func (c *Ctx) Sample(s interface{}) {
	if len(c.res.Samples) < 4 {
		c.res.Samples = append(c.res.Samples, s)
	}
}

// Outcome counts an observed outcome of a scenario (vacuity diagnostics).
func (c *Ctx) Outcome(scenario, outcome string) {
	m := c.res.Outcomes[scenario]
	if m == nil {
		m = map[string]int64{}
		c.res.Outcomes[scenario] = m
	}
	if len(m) < 64 || m[outcome] > 0 {
		m[outcome]++
	}
}

// Note stores a free-text diagnostic.
func (c *Ctx) Note(k, v string) { c.res.Notes[k] = v }

// Cap records that a cap bound.
func (c *Ctx) Cap(s string) {
	for _, x := range c.res.Caps {
		if x == s {
			return
		}
	}
	c.res.Caps = append(c.res.Caps, s)
}

// Violation records a violation. It returns true when the worker should stop looking for more.
func (c *Ctx) Violation(v Violation) bool {
	v.Property = c.Prop
	for _, o := range c.res.Violations {
		if o.Key == v.Key {
			return len(c.res.Violations) >= c.maxViol
		}
	}
	c.res.Violations = append(c.res.Violations, v)
	return len(c.res.Violations) >= c.maxViol
}

// NewLocalCtx returns a context for in-process use (replay).
func NewLocalCtx(prop string) *Ctx {
	c := &Ctx{Prop: prop, Tier: "quick", NShards: 1, Deadline: time.Now().Add(time.Hour), Args: map[string]string{},
		distinct: map[string]map[uint64]struct{}{}, maxViol: 1}
	c.res = Result{Counters: map[string]int64{}, Distinct: map[string][]uint64{}, Notes: map[string]string{}, Outcomes: map[string]map[string]int64{}}
	return c
}

// IsKnown reports whether a violation key is listed as a known finding of this property (the search
// then goes on instead of stopping at it, so that a different violation is still found).
func (c *Ctx) IsKnown(key string) bool {
	if c.known == nil {
		c.known = map[string]bool{}
		for _, k := range loadKnown() {
			if k.Status == "known" && k.Property == c.Prop {
				c.known[k.Key] = true
			}
		}
	}
	return c.known[key]
}

// NViolations returns the number of violations recorded by this worker.
func (c *Ctx) NViolations() int {
	n := 0
	for _, v := range c.res.Violations {
		if !c.IsKnown(v.Key) {
			n++
		}
	}
	return n
}

// HarnessError aborts the worker with a harness error (exit 2 at the coordinator, no VIOLATION line).
func (c *Ctx) HarnessError(format string, a ...interface{}) {
	if len(a) == 1 {
		if bv, ok := a[0].(*BaseViolation); ok {
			// the code under test went wrong while the harness was building a start state with it: that is a finding about the
			// code (a sequential history from an empty database that ends in an inconsistent database), not a harness failure
			c.Violation(Violation{Key: "base " + bv.Base + "/" + bv.Cfg, What: bv.Error(), Size: 1,
				Replay: map[string]interface{}{"kind": "base", "base": bv.Base, "cfg": bv.Cfg, "seed": bv.Seed, "observed": bv.Error()}})
			panic(stopCheck{})
		}
	}
	panic(harnessErr(fmt.Sprintf(format, a...)))
}

type harnessErr string

type stopCheck struct{}

// BaseViolation is returned by GetBase when the operations that build an engineered start state (Puts and Deletes on an
// empty database, no concurrency, no faults) left the database inconsistent with the model of those operations.
type BaseViolation struct {
	Base, Cfg string
	Seed      uint32
	Msg       string
}

func (b *BaseViolation) Error() string {
	return fmt.Sprintf("while building the engineered start state %s/%s (a history of Puts and Deletes on an empty database; no concurrency, no faults) the database became inconsistent with the model of those operations: %s", b.Base, b.Cfg, b.Msg)
}

// CheckFunc is the worker body of a check.
type CheckFunc func(c *Ctx)

// CheckInfo describes a registered check.
type CheckInfo struct {
	Prop        string
	Level       string // evidence level
	Rule        string
	Assumptions []string
	QuickBudget time.Duration
	ThorBudget  time.Duration
	Run         CheckFunc
	// Summarise may add keys to the coverage object from the merged result.
	StatesKey, TransKey, TracesKey, EvalKey string
	DistinctClass                           string
	Serial                                  bool // run a single worker
	ASLimitMB                               int  // address-space limit of a worker (default 12288); checks that memory-map real files need more
}

var registry = map[string]*CheckInfo{}

// Register registers a check.
func Register(ci *CheckInfo) { registry[ci.Prop] = ci }

// Lookup returns a registered check.
func Lookup(p string) *CheckInfo { return registry[p] }

// Props lists the registered properties.
func Props() []string {
	var ps []string
	for p := range registry {
		ps = append(ps, p)
	}
	sort.Strings(ps)
	return ps
}

func envInt(name string, def int) int {
	if v := os.Getenv(name); v != "" {
		if n, err := strconv.Atoi(v); err == nil {
			return n
		}
	}
	return def
}

// WorkerMain runs one shard and writes its result file.
func WorkerMain(prop, tier string, shard, nshards int, out string, budget time.Duration, args map[string]string) {
	ci := registry[prop]
	if ci == nil {
		fmt.Fprintln(os.Stderr, "unknown property", prop)
		os.Exit(2)
	}
	// address-space limit so that a runaway allocation fails this worker, not the sandbox
	defAS := 12288
	if ci.ASLimitMB > 0 {
		defAS = ci.ASLimitMB
	}
	lim := uint64(envInt("VERIF_WORKER_AS_MB", defAS)) << 20
	_ = syscall.Setrlimit(syscall.RLIMIT_AS, &syscall.Rlimit{Cur: lim, Max: lim})
	seed, _ := strconv.ParseInt(os.Getenv("VERIF_SEED"), 10, 64)
	c := &Ctx{Prop: prop, Tier: tier, Seed: seed, Shard: shard, NShards: nshards, Deadline: time.Now().Add(budget), Args: args,
		distinct: map[string]map[uint64]struct{}{}, maxViol: 3}
	c.res = Result{Counters: map[string]int64{}, Distinct: map[string][]uint64{}, Notes: map[string]string{}, Outcomes: map[string]map[string]int64{}}
	if pf := os.Getenv("VERIF_CPUPROFILE"); pf != "" && shard == 0 {
		if f, err := os.Create(pf); err == nil {
			_ = pprof.StartCPUProfile(f)
			defer pprof.StopCPUProfile()
		}
	}
	PanicSink = func(key, what string, replay map[string]interface{}) {
		c.Violation(Violation{Key: key, What: what, Size: len(key), Replay: replay})
	}
	func() {
		defer func() {
			if r := recover(); r != nil {
				if he, ok := r.(harnessErr); ok {
					c.res.HarnessErr = string(he)
				} else if _, ok := r.(stopCheck); ok {
					// a violation was recorded; the check ends here
				} else {
					c.res.HarnessErr = fmt.Sprintf("worker panic: %v\n%s", r, debug.Stack())
				}
			}
		}()
		ci.Run(c)
	}()
	for class, m := range c.distinct {
		l := make([]uint64, 0, len(m))
		for h := range m {
			l = append(l, h)
		}
		c.res.Distinct[class] = l
	}
	data, err := json.Marshal(&c.res)
	if err != nil {
		fmt.Fprintln(os.Stderr, "marshal:", err)
		os.Exit(2)
	}
	if err := os.WriteFile(out, data, 0644); err != nil {
		fmt.Fprintln(os.Stderr, err)
		os.Exit(2)
	}
}

// KnownFinding is an entry of known_findings.json.
type KnownFinding struct {
	Status   string `json:"status"` // "known" or "fixed"
	Property string `json:"property"`
	Key      string `json:"key"`
	What     string `json:"what"`
	Commit   string `json:"commit,omitempty"`
}

func loadKnown() []KnownFinding {
	var kf struct {
		Findings []KnownFinding `json:"findings"`
	}
	data, err := os.ReadFile(filepath.Join(VerifDir, "known_findings.json"))
	if err != nil {
		return nil
	}
	_ = json.Unmarshal(data, &kf)
	return kf.Findings
}

// CoordinatorMain runs all shards of a check, merges the results, writes the evidence file and
// returns the process exit code.
func CoordinatorMain(prop, tier string, extra map[string]string) int {
	ci := registry[prop]
	if ci == nil {
		fmt.Fprintln(os.Stderr, "unknown property", prop)
		return 2
	}
	start := time.Now()
	if t := os.Getenv("VERIF_TIER"); t == "quick" || t == "thorough" {
		tier = t
	}
	budget := ci.QuickBudget
	if tier == "thorough" {
		budget = ci.ThorBudget
	}
	if budget == 0 {
		budget = 60 * time.Second
		if tier == "thorough" {
			budget = 15 * time.Minute
		}
	}
	if v := os.Getenv("VERIF_BUDGET_S"); v != "" {
		if n, err := strconv.Atoi(v); err == nil {
			budget = time.Duration(n) * time.Second
		}
	}
	n := envInt("VERIF_PROCS", 16)
	if ci.Serial {
		n = 1
	}
	scratch, err := os.MkdirTemp("/dev/shm", "pogverif-"+prop+"-")
	if err != nil {
		scratch, err = os.MkdirTemp("", "pogverif-"+prop+"-")
		if err != nil {
			fmt.Fprintln(os.Stderr, err)
			return 2
		}
	}
	defer os.RemoveAll(scratch)
	self, _ := os.Executable()
	var wg sync.WaitGroup
	results := make([]*Result, n)
	errs := make([]string, n)
	killed := make([]bool, n)
	for i := 0; i < n; i++ {
		i := i
		wg.Add(1)
		go func() {
			defer wg.Done()
			out := filepath.Join(scratch, fmt.Sprintf("res%d.json", i))
			args := []string{"worker", prop, "--tier", tier, "--shard", strconv.Itoa(i), "--nshards", strconv.Itoa(n), "--out", out, "--budget", strconv.Itoa(int(budget / time.Second))}
			for k, v := range extra {
				args = append(args, "--arg", k+"="+v)
			}
			cmd := exec.Command(self, args...)
			cmd.Env = append(os.Environ(), "GOMAXPROCS=2", "VERIF_SCRATCH="+scratch)
			if os.Getenv("GOMEMLIMIT") == "" {
				// soft limit per worker: 16 workers must fit the machine whatever GOGC allows between collections
				cmd.Env = append(cmd.Env, "GOMEMLIMIT=2500MiB")
			}
			if os.Getenv("GOGC") == "" {
				// pogreb allocates a 256 KiB segment table per Open; a lazier collector more than doubles throughput
				cmd.Env = append(cmd.Env, "GOGC=400")
			}
			outb, err := cmd.CombinedOutput()
			data, rerr := os.ReadFile(out)
			if rerr != nil {
				tail := string(outb)
				if len(tail) > 3000 {
					tail = tail[len(tail)-3000:]
				}
				if err != nil && strings.Contains(err.Error(), "signal: killed") {
					// killed from outside (the kernel's out-of-memory killer, an operator): resource exhaustion of the harness, not
					// a verdict. The worker's share is reported as not covered.
					killed[i] = true
					return
				}
				errs[i] = fmt.Sprintf("worker %d produced no result (%v): %s", i, err, tail)
				return
			}
			r := &Result{}
			if jerr := json.Unmarshal(data, r); jerr != nil {
				errs[i] = fmt.Sprintf("worker %d: bad result: %v", i, jerr)
				return
			}
			results[i] = r
		}()
	}
	wg.Wait()

	merged := Result{Counters: map[string]int64{}, Notes: map[string]string{}, Outcomes: map[string]map[string]int64{}}
	distinct := map[string]map[uint64]struct{}{}
	var harness []string
	for i, r := range results {
		if r == nil && killed[i] {
			merged.Truncated = true
			merged.Caps = append(merged.Caps, fmt.Sprintf("worker %d of %d was killed from outside (out of memory?): its share of the space is not covered by this run", i, n))
			continue
		}
		if r == nil {
			harness = append(harness, errs[i])
			continue
		}
		if r.HarnessErr != "" {
			harness = append(harness, r.HarnessErr)
		}
		for k, v := range r.Counters {
			merged.Counters[k] += v
		}
		for class, l := range r.Distinct {
			m := distinct[class]
			if m == nil {
				m = map[uint64]struct{}{}
				distinct[class] = m
			}
			for _, h := range l {
				m[h] = struct{}{}
			}
		}
		if len(merged.Samples) < 6 {
			for _, s := range r.Samples {
				if len(merged.Samples) < 6 {
					merged.Samples = append(merged.Samples, s)
				}
			}
		}
		merged.Violations = append(merged.Violations, r.Violations...)
		for k, v := range r.Notes {
			merged.Notes[k] = v
		}
		for sc, m := range r.Outcomes {
			mm := merged.Outcomes[sc]
			if mm == nil {
				mm = map[string]int64{}
				merged.Outcomes[sc] = mm
			}
			for o, cnt := range m {
				mm[o] += cnt
			}
		}
		for _, cp := range r.Caps {
			found := false
			for _, x := range merged.Caps {
				found = found || x == cp
			}
			if !found {
				merged.Caps = append(merged.Caps, cp)
			}
		}
		merged.Truncated = merged.Truncated || r.Truncated
	}

	// sharding sanity: workers that ran to the end must have drawn the same sequence of jobs (a worker-dependent
	// early exit from a loop that draws jobs would silently skip work)
	maxSeen := 0
	for _, r := range results {
		if r != nil && r.JobsSeen > maxSeen {
			maxSeen = r.JobsSeen
		}
	}
	for i, r := range results {
		if r != nil && !r.Truncated && len(r.Violations) == 0 && r.HarnessErr == "" && r.JobsSeen != maxSeen {
			harness = append(harness, fmt.Sprintf("shard divergence: worker %d drew %d jobs, another drew %d (work would be skipped or duplicated)", i, r.JobsSeen, maxSeen))
		}
	}
	// violations: simplest first, one per key
	sort.SliceStable(merged.Violations, func(i, j int) bool {
		a, b := merged.Violations[i], merged.Violations[j]
		if a.Size != b.Size {
			return a.Size < b.Size
		}
		return a.Key < b.Key
	})
	known := loadKnown()
	seenKey := map[string]bool{}
	exit := 0
	nviol := 0
	var knownHit []string
	for _, v := range merged.Violations {
		if seenKey[v.Key] {
			continue
		}
		seenKey[v.Key] = true
		isKnown := false
		for _, k := range known {
			if k.Status == "known" && k.Property == prop && k.Key == v.Key {
				isKnown = true
				fmt.Printf("KNOWN-FINDING: property=%s %s\n", prop, k.What)
				knownHit = append(knownHit, k.Key)
			}
		}
		if isKnown {
			continue
		}
		nviol++
		if nviol > 5 {
			continue
		}
		dir := filepath.Join(VerifDir, "replays")
		_ = os.MkdirAll(dir, 0755)
		path := filepath.Join(dir, fmt.Sprintf("%s-%016x.json", prop, Hash64(v.Key)))
		art := map[string]interface{}{"property": prop, "key": v.Key, "what": v.What, "tier": tier, "replay": v.Replay}
		data, _ := json.MarshalIndent(art, "", " ")
		_ = os.WriteFile(path, data, 0644)
		fmt.Printf("VIOLATION property=%s replay=%s\n", prop, path)
		fmt.Printf("  %s\n  key: %s\n", v.What, v.Key)
		exit = 1
	}

	// evidence
	cov := map[string]interface{}{}
	for k, v := range merged.Counters {
		cov["n_"+k] = v
	}
	for class, m := range distinct {
		cov["distinct_"+class] = len(m)
	}
	pick := func(key string, def int64) int64 {
		if key == "" {
			return def
		}
		if strings.HasPrefix(key, "distinct:") {
			return int64(len(distinct[strings.TrimPrefix(key, "distinct:")]))
		}
		return merged.Counters[key]
	}
	evals := pick(ci.EvalKey, merged.Counters["executions"])
	cov["evaluations"] = evals
	dn := int64(len(distinct[ci.DistinctClass]))
	cov["distinct_nontrivial"] = dn
	cov["rule"] = ci.Rule
	if len(merged.Samples) == 0 {
		merged.Samples = append(merged.Samples, "no samples recorded")
	}
	cov["samples"] = merged.Samples
	if ci.Level == "model_checking" {
		cov["states"] = pick(ci.StatesKey, dn)
		cov["transitions"] = pick(ci.TransKey, merged.Counters["transitions"])
		cov["traces_validated_against_impl"] = pick(ci.TracesKey, evals)
	}
	cov["exhaustive"] = !merged.Truncated && len(harness) == 0
	if len(merged.Caps) > 0 {
		cov["caps_hit"] = merged.Caps
	}
	if len(merged.Notes) > 0 {
		cov["notes"] = merged.Notes
	}
	// vacuity diagnostics: scenarios with a single observed outcome
	oc := map[string]int{}
	single := 0
	for sc, m := range merged.Outcomes {
		oc[sc] = len(m)
		if len(m) <= 1 {
			single++
		}
	}
	if len(oc) > 0 {
		cov["scenarios"] = len(oc)
		cov["scenarios_with_single_outcome"] = single
		if len(oc) <= 40 {
			cov["distinct_outcomes_per_scenario"] = oc
		}
	}
	if len(knownHit) > 0 {
		cov["known_findings_hit"] = knownHit
	}
	if rep, err := os.ReadFile(filepath.Join(VerifDir, "bin", "instrument_report.json")); err == nil {
		var ir map[string]interface{}
		if json.Unmarshal(rep, &ir) == nil {
			cov["instrumentation"] = ir
		}
	}
	ev := map[string]interface{}{
		"property_id": prop,
		"tier":        tier,
		"seed":        envInt("VERIF_SEED", 0),
		"level":       ci.Level,
		"coverage":    cov,
		"assumptions": ci.Assumptions,
		"wall_s":      time.Since(start).Seconds(),
		"violations":  nviol,
	}
	if len(harness) > 0 {
		ev["harness_errors"] = harness
	}
	_ = os.MkdirAll(filepath.Join(VerifDir, "evidence"), 0755)
	data, _ := json.MarshalIndent(ev, "", " ")
	if err := os.WriteFile(filepath.Join(VerifDir, "evidence", prop+".json"), data, 0644); err != nil {
		fmt.Fprintln(os.Stderr, err)
		return 2
	}
	fmt.Printf("%s %s: evaluations=%d distinct=%d violations=%d exhaustive=%v wall=%.1fs\n", prop, tier, evals, dn, nviol, cov["exhaustive"], time.Since(start).Seconds())
	if len(harness) > 0 {
		for _, h := range harness {
			fmt.Fprintln(os.Stderr, "HARNESS ERROR:", h)
		}
		if exit == 0 {
			return 2
		}
	}
	return exit
}
