// Package explore holds the pieces shared by all checks: configurations, engineered base states,
// the session wrapper that drives the real pogreb API next to the map model, the structural
// invariant of the index, evidence/replay/known-finding plumbing.
package explore

import (
	"bytes"
	"fmt"
	"io"
	"log"
	"runtime/debug"
	"sort"
	"strings"

	"github.com/akrylysov/pogreb"
	"github.com/akrylysov/pogreb/fs"
	"github.com/akrylysov/pogreb/internal/hash"
	"github.com/akrylysov/pogreb/zzverif/hashforge"
	"github.com/akrylysov/pogreb/zzverif/refmodel"
	"github.com/akrylysov/pogreb/zzverif/simfs"
	"github.com/akrylysov/pogreb/zzverif/vsync"
)

// DBPath is the directory of the database inside the harness file system.
const DBPath = "db"

// RecPut and RecDel are the encoded sizes of the records the harness writes (8-byte keys, 4-byte values).
const (
	RecPut = 6 + 8 + 4 + 4
	RecDel = 6 + 8 + 4
)

func init() {
	pogreb.SetLogger(log.New(io.Discard, "", 0))
}

// PinSeed pins the hash seed used by newly created (and recovered) databases.
func PinSeed(seed uint32) {
	s := seed
	hash.VerifSeed = &s
}

// Config is a named option setting.
type Config struct {
	Name       string
	MaxSeg     uint32
	MinSeg     uint32
	MinFrag    float32
	SyncWrites bool
}

// The three segment configurations of DESIGN.md section 3.
var (
	BIG   = Config{Name: "BIG"}
	ROLL  = Config{Name: "ROLL", MaxSeg: refmodel.HeaderSize + 3*RecPut, MinSeg: 1, MinFrag: 1e-9}
	ROLL1 = Config{Name: "ROLL1", MaxSeg: refmodel.HeaderSize + RecPut, MinSeg: 1, MinFrag: 1e-9}
	// ROLLM: like ROLL, but segments smaller than header+60 bytes are not compaction candidates by themselves
	ROLLM = Config{Name: "ROLLM", MaxSeg: refmodel.HeaderSize + 3*RecPut, MinSeg: refmodel.HeaderSize + 60, MinFrag: 1e-9}
)

// ConfigByName returns a configuration by name.
func ConfigByName(n string) Config {
	sw := strings.HasSuffix(n, "+SW")
	n = strings.TrimSuffix(n, "+SW")
	var c Config
	switch n {
	case "BIG":
		c = BIG
	case "ROLL":
		c = ROLL
	case "ROLL1":
		c = ROLL1
	case "ROLLM":
		c = ROLLM
	default:
		panic("unknown config " + n)
	}
	if sw {
		c.SyncWrites = true
		c.Name += "+SW"
	}
	return c
}

// Options builds pogreb options for the configuration on the given file system.
func (c Config) Options(fsys fs.FileSystem) *pogreb.Options {
	o := &pogreb.Options{FileSystem: fsys}
	if c.SyncWrites {
		o.BackgroundSyncInterval = -1
	}
	pogreb.VerifSetThresholds(o, c.MaxSeg, c.MinSeg, c.MinFrag)
	return o
}

// OpKind enumerates the API operations of the alphabets.
type OpKind int

// Operation kinds.
const (
	Put OpKind = iota
	Delete
	Compact
	Sync
	Reopen
	Backup
	Close
	Get
	Has
	Count
	Scan
	GetAppend
	FileSize
	Metrics
	Open
	IterNext
	Open2
	// PutBig stores a value so long that the record is larger than a whole segment of the ROLL* configurations
	// (an admissible size: the record gets a segment of its own size). Sequential words only.
	PutBig
)

var opNames = [...]string{"Put", "Delete", "Compact", "Sync", "Reopen", "Backup", "Close", "Get", "Has", "Count", "Scan", "GetAppend", "FileSize", "Metrics", "Open", "IterNext", "Open2", "PutBig"}

func (k OpKind) String() string { return opNames[k] }

// Op is one letter of a word: an API call with its (role-named) key.
type Op struct {
	Kind OpKind
	Key  string // role name in the base's key table
}

func (o Op) String() string {
	if o.Key != "" {
		return fmt.Sprintf("%s(%s)", o.Kind, o.Key)
	}
	return o.Kind.String()
}

// WordString renders a word.
func WordString(w []Op) string {
	var p []string
	for _, o := range w {
		p = append(p, o.String())
	}
	return strings.Join(p, " ")
}

// Model is the reference map.
type Model map[string]string

// Clone copies the model.
func (m Model) Clone() Model {
	c := make(Model, len(m))
	for k, v := range m {
		c[k] = v
	}
	return c
}

// Equal compares two models.
func (m Model) Equal(o Model) bool {
	if len(m) != len(o) {
		return false
	}
	for k, v := range m {
		if ov, ok := o[k]; !ok || ov != v {
			return false
		}
	}
	return true
}

// Diff describes the difference got vs want (want = receiver).
func (m Model) Diff(got Model, names func(string) string) string {
	var d []string
	for k, v := range m {
		if gv, ok := got[k]; !ok {
			d = append(d, fmt.Sprintf("missing %s (want %q)", names(k), v))
		} else if gv != v {
			d = append(d, fmt.Sprintf("%s=%q want %q", names(k), gv, v))
		}
	}
	for k, gv := range got {
		if _, ok := m[k]; !ok {
			d = append(d, fmt.Sprintf("unexpected %s=%q", names(k), gv))
		}
	}
	sort.Strings(d)
	if len(d) > 6 {
		d = append(d[:6], fmt.Sprintf("... %d more", len(d)-6))
	}
	return strings.Join(d, "; ")
}

// Sess drives one database next to the map model.
type Sess struct {
	FS    *simfs.FS
	Cfg   Config
	DB    *pogreb.DB
	Model Model
	Keys  map[string][]byte // role -> key bytes
	Probe []string          // roles probed by the oracle after every step
	Seed  uint32
	NVal  int // counter for unique values
	Steps int
	// options
	SkipStructure  bool
	FixedBackupDir string
	BaseName       string
	quietPanic     bool   // do not report panics to PanicSink (the caller turns the returned error into its own violation)
	History        []Op   // letters applied so far (for panic reports)
	Panicked       string // non-empty once an API call panicked
	RotateSeed     bool   // every Open is given a different (deterministic) answer should it draw a fresh hash seed
	nOpen          int
	// observations of the last Apply
	LastCompact    pogreb.CompactionResult
	ReopenLogStart int // log index at which the Open of the last Reopen started
	NBackup        int
	LastBackup     string
}

// KeyName maps key bytes back to a role name for messages.
func (s *Sess) KeyName(k string) string {
	// several roles may alias one key: the smallest name, so that messages are deterministic
	best := ""
	for r, b := range s.Keys {
		if string(b) == k && (best == "" || r < best) {
			best = r
		}
	}
	if best != "" {
		return best
	}
	return fmt.Sprintf("%x", k)
}

// NextValue returns a fresh unique 4-byte value.
func (s *Sess) NextValue() string {
	s.NVal++
	return fmt.Sprintf("v%03d", s.NVal%1000)
}

// OpenDB opens the database on the session's file system.
// PanicSink, when set (by the worker), receives every panic raised by the code under test during an
// API call made through a Sess: a panic is a violation of whatever property is being checked, never a
// harness error.
var PanicSink func(key, what string, replay map[string]interface{})

// PanicError is the error returned for an API call that panicked.
type PanicError struct{ Msg string }

func (e *PanicError) Error() string { return "panic: " + e.Msg }

// protect runs f and converts a panic of the code under test into a PanicError (and reports it).
func (s *Sess) protect(what string, f func() error) (err error) {
	report := func(msg string) error {
		s.Panicked = what + ": " + msg
		if PanicSink != nil && !s.quietPanic {
			var w []string
			for _, o := range s.History {
				w = append(w, o.String())
			}
			PanicSink(fmt.Sprintf("panic base=%s cfg=%s word=%s at=%s", s.BaseName, s.Cfg.Name, strings.Join(w, " "), what),
				fmt.Sprintf("base %s/%s after [%s]: %s: %s", s.BaseName, s.Cfg.Name, strings.Join(w, ", "), what, msg),
				map[string]interface{}{"kind": "panic", "base": s.BaseName, "cfg": s.Cfg.Name, "word": w, "at": what, "observed": msg})
		}
		return &PanicError{Msg: s.Panicked}
	}
	if vsync.Active() {
		// already inside a scheduler run (not the case for the sequential checks): plain call with recover
		defer func() {
			if r := recover(); r != nil {
				if he, ok := r.(harnessErr); ok {
					panic(he)
				}
				err = report("panicked: " + panicSummary(fmt.Sprintf("%v\n%s", r, debug.Stack())))
			}
		}()
		return f()
	}
	// The call runs as the only thread of a scheduler run: a lock that can never be granted (e.g. a mutex that an
	// earlier, failed operation left locked) is a deadlock STATE the scheduler reports, instead of a hung worker.
	var ferr error
	var he interface{}
	x := vsync.Run(nil, vsync.Sched{}, func() {
		defer func() {
			if r := recover(); r != nil {
				if _, ok := r.(harnessErr); ok {
					he = r
					return
				}
				panic(r)
			}
		}()
		ferr = f()
	})
	if he != nil {
		panic(he)
	}
	switch {
	case x.Deadlock != "":
		return report("deadlock (the call can never return): " + x.Deadlock)
	case x.Panic != "":
		return report("panicked: " + panicSummary(x.Panic))
	}
	return ferr
}

func (s *Sess) OpenDB() error {
	return s.protect("Open", s.openDB)
}

func (s *Sess) openDB() error {
	if s.RotateSeed {
		s.nOpen++
		PinSeed(s.Seed + uint32(s.nOpen)*0x9E3779B9)
	}
	db, err := pogreb.Open(DBPath, s.Cfg.Options(s.FS))
	if err != nil {
		return err
	}
	s.DB = db
	return nil
}

// ProtectedClose closes the database (panics become errors).
func (s *Sess) ProtectedClose() error {
	if s.DB == nil {
		return nil
	}
	return s.protect("Close", func() error { return s.DB.Close() })
}

// Apply executes one mutating letter on the database and the model. It returns the error of the
// API call (the caller decides whether an error is a violation).
func (s *Sess) Apply(o Op) error {
	s.History = append(s.History, o)
	return s.protect(o.String(), func() error { return s.apply(o) })
}

func (s *Sess) apply(o Op) error {
	s.Steps++
	s.FS.Tag = s.Steps
	switch o.Kind {
	case Put, PutBig:
		k := s.Keys[o.Key]
		v := s.NextValue()
		if o.Kind == PutBig {
			v += strings.Repeat("B", 3*RecPut)
		}
		kb := append([]byte(nil), k...)
		vb := []byte(v)
		err := s.DB.Put(kb, vb)
		// the caller may overwrite its slices as soon as the call returns (C14)
		for i := range kb {
			kb[i] = 0xEE
		}
		for i := range vb {
			vb[i] = 0xEE
		}
		if err == nil {
			s.Model[string(k)] = v
		}
		return err
	case Delete:
		k := s.Keys[o.Key]
		kb := append([]byte(nil), k...)
		err := s.DB.Delete(kb)
		for i := range kb {
			kb[i] = 0xEE
		}
		if err == nil {
			delete(s.Model, string(k))
		}
		return err
	case Compact:
		cr, err := s.DB.Compact()
		s.LastCompact = cr
		return err
	case Backup:
		s.NBackup++
		s.LastBackup = fmt.Sprintf("bak%d", s.NBackup)
		if s.FixedBackupDir != "" {
			s.LastBackup = s.FixedBackupDir // every backup goes to the same directory
		}
		return s.DB.Backup(s.LastBackup)
	case Sync:
		return s.DB.Sync()
	case Reopen:
		if err := s.DB.Close(); err != nil {
			return fmt.Errorf("Close: %v", err)
		}
		s.DB = nil
		s.ReopenLogStart = len(s.FS.Log)
		if err := s.OpenDB(); err != nil {
			return fmt.Errorf("Open: %v", err)
		}
		return nil
	case Close:
		err := s.DB.Close()
		return err
	}
	return fmt.Errorf("explore: op %v not applicable", o)
}

// ReadAll reads the complete contents through Items and returns them as a model; duplicate keys
// are reported.
func ReadAll(db *pogreb.DB) (Model, error) {
	m := Model{}
	it := db.Items()
	for {
		k, v, err := it.Next()
		if err == pogreb.ErrIterationDone {
			break
		}
		if err != nil {
			return nil, fmt.Errorf("Items.Next: %v", err)
		}
		if _, dup := m[string(k)]; dup {
			return nil, fmt.Errorf("Items returned key %x twice", k)
		}
		m[string(k)] = string(v)
	}
	for i := 0; i < 3; i++ {
		if _, _, err := it.Next(); err != pogreb.ErrIterationDone {
			return nil, fmt.Errorf("Next after the end returned %v, want ErrIterationDone", err)
		}
	}
	return m, nil
}

// CheckReads compares every read API with the model. It returns "" if all agree.
func (s *Sess) CheckReads() string {
	db := s.DB
	if c := db.Count(); int(c) != len(s.Model) {
		return fmt.Sprintf("Count=%d want %d", c, len(s.Model))
	}
	prefix := []byte("PFX")
	for _, r := range s.Probe {
		k := s.Keys[r]
		want, ok := s.Model[string(k)]
		got, err := db.Get(k)
		if err != nil {
			return fmt.Sprintf("Get(%s): %v", r, err)
		}
		if ok != (got != nil) || (ok && string(got) != want) {
			return fmt.Sprintf("Get(%s)=%q want %q present=%v", r, got, want, ok)
		}
		has, err := db.Has(k)
		if err != nil {
			return fmt.Sprintf("Has(%s): %v", r, err)
		}
		if has != ok {
			return fmt.Sprintf("Has(%s)=%v want %v", r, has, ok)
		}
		buf := make([]byte, len(prefix), 64)
		copy(buf, prefix)
		ga, err := db.GetAppend(k, buf)
		if err != nil {
			return fmt.Sprintf("GetAppend(%s): %v", r, err)
		}
		if ok {
			if string(ga) != string(prefix)+want {
				return fmt.Sprintf("GetAppend(%s)=%q want %q", r, ga, string(prefix)+want)
			}
		} else if ga != nil {
			return fmt.Sprintf("GetAppend(%s)=%q for an absent key, want nil", r, ga)
		}
	}
	all, err := ReadAll(db)
	if err != nil {
		return err.Error()
	}
	if !s.Model.Equal(all) {
		return "Items scan differs from model: " + s.Model.Diff(all, s.KeyName)
	}
	return ""
}

// CheckStructure evaluates the structural invariant of the index on the verif dump.
func (s *Sess) CheckStructure() string {
	if s.SkipStructure {
		return ""
	}
	vi, err := s.DB.VerifIndex()
	if err != nil {
		return "VerifIndex: " + err.Error()
	}
	segs := s.DB.VerifSegments()
	return StructuralInvariant(vi, segs, s.FS, s.DB.VerifHashSeed(), len(s.Model))
}

// Check runs the complete per-step oracle.
func (s *Sess) Check() string {
	if s.Panicked != "" {
		return "an API call panicked: " + s.Panicked
	}
	msg := ""
	if err := s.protect("reads", func() error {
		if msg = s.CheckReads(); msg == "" {
			msg = s.CheckStructure()
		}
		return nil
	}); err != nil {
		return err.Error()
	}
	return msg
}

// StructuralInvariant checks the index dump against the segment files (see DESIGN.md 2.4).
func StructuralInvariant(vi pogreb.VerifIndex, segs []pogreb.VerifSegment, fsys *simfs.FS, seed uint32, wantCount int) string {
	if int(vi.NumBuckets) != (1<<vi.Level)+int(vi.SplitBucketIdx) {
		return fmt.Sprintf("numBuckets=%d but level=%d split=%d", vi.NumBuckets, vi.Level, vi.SplitBucketIdx)
	}
	if vi.MainSize != int64(refmodel.HeaderSize)+int64(vi.NumBuckets)*refmodel.BucketSize {
		return fmt.Sprintf("main index size %d for %d buckets", vi.MainSize, vi.NumBuckets)
	}
	if len(vi.Chains) != int(vi.NumBuckets) {
		return fmt.Sprintf("dump has %d chains for %d buckets", len(vi.Chains), vi.NumBuckets)
	}
	segName := map[uint16]string{}
	for _, sg := range segs {
		segName[sg.ID] = sg.Name
	}
	linked := map[int64]bool{}
	seenRec := map[string]bool{}
	seenKey := map[string]bool{}
	slots := 0
	for bi, chain := range vi.Chains {
		for ci, b := range chain {
			if ci > 0 {
				if linked[b.Offset] {
					return fmt.Sprintf("overflow bucket %d linked twice", b.Offset)
				}
				linked[b.Offset] = true
				if b.Offset < refmodel.HeaderSize || (b.Offset-refmodel.HeaderSize)%refmodel.BucketSize != 0 || b.Offset+refmodel.BucketSize > vi.OverflowSize {
					return fmt.Sprintf("overflow bucket offset %d misaligned or outside the file (size %d)", b.Offset, vi.OverflowSize)
				}
			}
			empty := false
			for si, sl := range b.Slots {
				if sl.Offset == 0 {
					empty = true
					continue
				}
				if empty {
					return fmt.Sprintf("bucket %d chain pos %d: slot %d non-empty after an empty slot", bi, ci, si)
				}
				slots++
				mask := uint32(1)<<vi.Level - 1
				want := sl.Hash & mask
				if want < vi.SplitBucketIdx {
					want = sl.Hash & (uint32(1)<<(vi.Level+1) - 1)
				}
				if int(want) != bi {
					return fmt.Sprintf("slot with hash %08x sits in bucket %d, its hash maps to bucket %d", sl.Hash, bi, want)
				}
				rk := fmt.Sprintf("%d/%d", sl.SegmentID, sl.Offset)
				if seenRec[rk] {
					return fmt.Sprintf("record %s referenced by two slots", rk)
				}
				seenRec[rk] = true
				name, ok := segName[sl.SegmentID]
				if !ok {
					return fmt.Sprintf("slot names segment %d which does not exist", sl.SegmentID)
				}
				data := fsys.Bytes(DBPath + "/" + name)
				end := int64(sl.Offset) + 6 + int64(sl.KeySize) + int64(sl.ValueSize) + 4
				if int64(sl.Offset) < refmodel.HeaderSize || end > int64(len(data)) {
					return fmt.Sprintf("slot %s points outside segment %s (len %d)", rk, name, len(data))
				}
				d := refmodel.DecodeSegment(append(append([]byte(nil), data[:refmodel.HeaderSize]...), data[sl.Offset:end]...))
				if len(d.Records) != 1 || d.Records[0].Delete || len(d.Records[0].Key) != int(sl.KeySize) || len(d.Records[0].Value) != int(sl.ValueSize) {
					return fmt.Sprintf("slot %s does not name a put record with the slot's sizes (decode stop %q)", rk, d.Stop)
				}
				key := d.Records[0].Key
				if hashforge.Sum32(key, seed) != sl.Hash {
					return fmt.Sprintf("slot %s: stored hash %08x is not the hash of the record's key", rk, sl.Hash)
				}
				if seenKey[string(key)] {
					return fmt.Sprintf("key %x has two slots", key)
				}
				seenKey[string(key)] = true
			}
		}
	}
	if slots != int(vi.NumKeys) {
		return fmt.Sprintf("index holds %d slots but numKeys=%d", slots, vi.NumKeys)
	}
	if wantCount >= 0 && slots != wantCount {
		return fmt.Sprintf("index holds %d slots, model has %d keys", slots, wantCount)
	}
	free := map[int64]bool{}
	for _, off := range vi.FreeList {
		if free[off] {
			return fmt.Sprintf("free list holds offset %d twice", off)
		}
		free[off] = true
		if linked[off] {
			return fmt.Sprintf("free overflow bucket %d is still linked into a chain", off)
		}
		if off < refmodel.HeaderSize || (off-refmodel.HeaderSize)%refmodel.BucketSize != 0 || off+refmodel.BucketSize > vi.OverflowSize {
			return fmt.Sprintf("free list offset %d misaligned or outside the overflow file", off)
		}
	}
	return ""
}

// SegmentFiles returns name -> bytes of the segment files of the database directory.
func SegmentFiles(fsys *simfs.FS) map[string][]byte {
	m := map[string][]byte{}
	for _, n := range fsys.NamesIn(DBPath) {
		if strings.HasSuffix(n, refmodel.SegmentExt) {
			m[n] = fsys.Bytes(DBPath + "/" + n)
		}
	}
	return m
}

// ModelFromDecode converts an independent replay to a Model.
func ModelFromDecode(d refmodel.DirDecode) Model {
	m := Model{}
	for k, v := range d.Model {
		m[k] = string(v)
	}
	return m
}

// RanRecovery reports whether the op log slice contains the trace of a recovery (a rename to *.bac).
func RanRecovery(ops []simfs.Op) bool {
	for _, o := range ops {
		if o.Kind == simfs.OpRename && strings.HasSuffix(o.Name2, ".bac") {
			return true
		}
		if o.Kind == simfs.OpLockCreate && o.Existed {
			return true
		}
	}
	return false
}

var _ = bytes.Equal
