// Package hashforge constructs keys with a chosen 32-bit MurmurHash3 (x86_32) value for a given
// seed. The block mix and the finaliser of MurmurHash3-32 are bijections on uint32, so for any
// prefix made of whole 4-byte blocks a 4-byte suffix can be solved for any target hash.
// The package has its own forward implementation; the harness validates every forged key against
// pogreb's real hash function at start-up (binding of the forge to the code).
package hashforge

import (
	"encoding/binary"
	"math/bits"
)

const (
	c1 uint32 = 0xcc9e2d51
	c2 uint32 = 0x1b873593
)

func modInverse(a uint32) uint32 {
	// Newton iteration for the inverse of an odd number modulo 2^32.
	x := a
	for i := 0; i < 5; i++ {
		x *= 2 - a*x
	}
	return x
}

var (
	invC1 = modInverse(c1)
	invC2 = modInverse(c2)
	inv5  = modInverse(5)
	invF1 = modInverse(0x85ebca6b)
	invF2 = modInverse(0xc2b2ae35)
)

// Sum32 is an independent implementation of MurmurHash3_x86_32.
func Sum32(data []byte, seed uint32) uint32 {
	h := seed
	n := len(data)
	for len(data) >= 4 {
		k := binary.LittleEndian.Uint32(data)
		data = data[4:]
		h = mixBlock(h, k)
	}
	var k uint32
	switch len(data) {
	case 3:
		k ^= uint32(data[2]) << 16
		fallthrough
	case 2:
		k ^= uint32(data[1]) << 8
		fallthrough
	case 1:
		k ^= uint32(data[0])
		k *= c1
		k = bits.RotateLeft32(k, 15)
		k *= c2
		h ^= k
	}
	h ^= uint32(n)
	return fmix(h)
}

func mixBlock(h, k uint32) uint32 {
	k *= c1
	k = bits.RotateLeft32(k, 15)
	k *= c2
	h ^= k
	h = bits.RotateLeft32(h, 13)
	return h*5 + 0xe6546b64
}

func fmix(h uint32) uint32 {
	h ^= h >> 16
	h *= 0x85ebca6b
	h ^= h >> 13
	h *= 0xc2b2ae35
	h ^= h >> 16
	return h
}

func unxorshift(h uint32, s uint) uint32 {
	// inverse of h ^= h >> s
	r := h
	for i := uint(0); i < 32/s+1; i++ {
		r = h ^ (r >> s)
	}
	return r
}

func unfmix(h uint32) uint32 {
	h = unxorshift(h, 16)
	h *= invF2
	h = unxorshift(h, 13)
	h *= invF1
	h = unxorshift(h, 16)
	return h
}

// Forge returns prefix ++ 4 solved bytes such that Sum32(result, seed) == target.
// len(prefix) must be a multiple of 4.
func Forge(prefix []byte, seed uint32, target uint32) []byte {
	if len(prefix)%4 != 0 {
		panic("hashforge: prefix length must be a multiple of 4")
	}
	h := seed
	for p := prefix; len(p) >= 4; p = p[4:] {
		h = mixBlock(h, binary.LittleEndian.Uint32(p))
	}
	n := uint32(len(prefix) + 4)
	want := unfmix(target) ^ n // state after the last block
	// want = rotl(h ^ k', 13)*5 + 0xe6546b64
	x := (want - 0xe6546b64) * inv5
	x = bits.RotateLeft32(x, -13)
	kp := x ^ h
	// kp = rotl(k*c1, 15)*c2
	k := kp * invC2
	k = bits.RotateLeft32(k, -15)
	k *= invC1
	out := make([]byte, len(prefix)+4)
	copy(out, prefix)
	binary.LittleEndian.PutUint32(out[len(prefix):], k)
	return out
}

// Label4 returns a 4-byte label made of a role letter and a number (printable, deterministic).
func Label4(role byte, n int) []byte {
	return []byte{role, byte('0' + (n/100)%10), byte('0' + (n/10)%10), byte('0' + n%10)}
}
