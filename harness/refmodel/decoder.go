// Package refmodel holds the reference models and independent oracles: a plain map model, an
// independent reader of the documented on-disk format (docs/design.md), a linearizability checker.
// Nothing here shares code with pogreb.
package refmodel

import (
	"encoding/binary"
	"fmt"
	"hash/crc32"
	"sort"
	"strconv"
	"strings"
)

// Documented format constants (docs/design.md, format version 2).
const (
	HeaderSize     = 512
	FormatVersion  = 2
	BucketSize     = 512
	SlotsPerBucket = 31
	SegmentExt     = ".psg"
)

// Signature is the documented file signature.
var Signature = []byte{'p', 'o', 'g', 'r', 'e', 'b', 0x0e, 0xfd}

// Record is one decoded WAL record.
type Record struct {
	Offset int64
	Size   int64
	Delete bool
	Key    []byte
	Value  []byte
}

// SegmentDecode is the result of decoding one segment file.
type SegmentDecode struct {
	HeaderOK bool
	Records  []Record
	ValidEnd int64  // end offset of the last accepted record (HeaderSize if none)
	Stop     string // why decoding stopped: "eof", "short-header", "short-body", "crc"
}

// DecodeSegment accepts records up to the first invalid one.
func DecodeSegment(data []byte) SegmentDecode {
	var d SegmentDecode
	if len(data) < HeaderSize || string(data[:8]) != string(Signature) {
		d.Stop = "bad-file-header"
		return d
	}
	if binary.LittleEndian.Uint32(data[8:12]) != FormatVersion {
		d.Stop = "bad-version"
		return d
	}
	d.HeaderOK = true
	off := int64(HeaderSize)
	d.ValidEnd = off
	for {
		rest := data[off:]
		if len(rest) == 0 {
			d.Stop = "eof"
			return d
		}
		if len(rest) < 6 {
			d.Stop = "short-header"
			return d
		}
		ks := int64(binary.LittleEndian.Uint16(rest[:2]))
		vs32 := binary.LittleEndian.Uint32(rest[2:6])
		del := vs32&(1<<31) != 0
		vs := int64(vs32 &^ (1 << 31))
		size := 6 + ks + vs + 4
		if int64(len(rest)) < size {
			d.Stop = "short-body"
			return d
		}
		sum := crc32.ChecksumIEEE(rest[:6+ks+vs])
		if sum != binary.LittleEndian.Uint32(rest[6+ks+vs:size]) {
			d.Stop = "crc"
			return d
		}
		d.Records = append(d.Records, Record{
			Offset: off, Size: size, Delete: del,
			Key:   append([]byte(nil), rest[6:6+ks]...),
			Value: append([]byte(nil), rest[6+ks:6+ks+vs]...),
		})
		off += size
		d.ValidEnd = off
	}
}

// EncodeRecord encodes a record in the documented format (used to build damaged tails).
func EncodeRecord(key, value []byte, del bool) []byte {
	buf := make([]byte, 6+len(key)+len(value)+4)
	binary.LittleEndian.PutUint16(buf[0:2], uint16(len(key)))
	vs := uint32(len(value))
	if del {
		vs |= 1 << 31
	}
	binary.LittleEndian.PutUint32(buf[2:6], vs)
	copy(buf[6:], key)
	copy(buf[6+len(key):], value)
	binary.LittleEndian.PutUint32(buf[len(buf)-4:], crc32.ChecksumIEEE(buf[:len(buf)-4]))
	return buf
}

// SegmentName is a parsed "%05d-%d.psg" name.
type SegmentName struct {
	Name string
	ID   int
	Seq  uint64
}

// ParseSegmentName parses a documented segment file name.
func ParseSegmentName(name string) (SegmentName, error) {
	if !strings.HasSuffix(name, SegmentExt) {
		return SegmentName{}, fmt.Errorf("not a segment: %s", name)
	}
	base := strings.TrimSuffix(name, SegmentExt)
	parts := strings.SplitN(base, "-", 2)
	if len(parts) != 2 || len(parts[0]) != 5 {
		return SegmentName{}, fmt.Errorf("segment name %q does not match %%05d-%%d.psg", name)
	}
	id, err := strconv.ParseUint(parts[0], 10, 16)
	if err != nil {
		return SegmentName{}, err
	}
	seq, err := strconv.ParseUint(parts[1], 10, 64)
	if err != nil {
		return SegmentName{}, err
	}
	if fmt.Sprintf("%05d-%d%s", id, seq, SegmentExt) != name {
		return SegmentName{}, fmt.Errorf("segment name %q is not canonical", name)
	}
	return SegmentName{Name: name, ID: int(id), Seq: seq}, nil
}

// DirDecode is the independent replay of a directory of segments.
type DirDecode struct {
	Segments []SegmentName
	Decodes  map[string]SegmentDecode
	Model    map[string][]byte
	Err      string
}

// ReplayDir replays the segments (name -> bytes) in sequence order, each up to its first invalid
// record, and returns the resulting map.
func ReplayDir(files map[string][]byte) DirDecode {
	d := DirDecode{Decodes: map[string]SegmentDecode{}, Model: map[string][]byte{}}
	for name := range files {
		if !strings.HasSuffix(name, SegmentExt) {
			continue
		}
		sn, err := ParseSegmentName(name)
		if err != nil {
			d.Err = err.Error()
			return d
		}
		d.Segments = append(d.Segments, sn)
	}
	sort.Slice(d.Segments, func(i, j int) bool { return d.Segments[i].Seq < d.Segments[j].Seq })
	for i := 1; i < len(d.Segments); i++ {
		if d.Segments[i].Seq == d.Segments[i-1].Seq {
			d.Err = "duplicate sequence id"
		}
	}
	for _, sn := range d.Segments {
		sd := DecodeSegment(files[sn.Name])
		d.Decodes[sn.Name] = sd
		for _, r := range sd.Records {
			if r.Delete {
				delete(d.Model, string(r.Key))
			} else {
				d.Model[string(r.Key)] = r.Value
			}
		}
	}
	return d
}

// Slot is a decoded index slot.
type Slot struct {
	Hash      uint32
	SegmentID uint16
	KeySize   uint16
	ValueSize uint32
	Offset    uint32
}

// Bucket is a decoded index bucket.
type Bucket struct {
	Slots [SlotsPerBucket]Slot
	Next  int64
}

// DecodeBucket decodes the documented 512-byte bucket layout.
func DecodeBucket(b []byte) Bucket {
	var bk Bucket
	for i := 0; i < SlotsPerBucket; i++ {
		s := b[i*16:]
		bk.Slots[i] = Slot{
			Hash:      binary.LittleEndian.Uint32(s[0:4]),
			SegmentID: binary.LittleEndian.Uint16(s[4:6]),
			KeySize:   binary.LittleEndian.Uint16(s[6:8]),
			ValueSize: binary.LittleEndian.Uint32(s[8:12]),
			Offset:    binary.LittleEndian.Uint32(s[12:16]),
		}
	}
	bk.Next = int64(binary.LittleEndian.Uint64(b[SlotsPerBucket*16:]))
	return bk
}
