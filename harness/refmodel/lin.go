package refmodel

import (
	"fmt"
	"sort"
	"strings"
)

// LinOp is one completed operation of a concurrent history against the map model.
type LinOp struct {
	Thread int
	Kind   string // "Put", "Delete", "Get", "Has", "Count", "Err" (operation that returned an error: no effect)
	Key    string
	Val    string // Put: value written; Get: value returned
	Found  bool   // Get/Has result
	N      int    // Count result
	Call   int
	Ret    int
	Maybe  bool // the operation may or may not have taken effect (e.g. it returned an error while racing with Close)
}

func (o LinOp) String() string {
	switch o.Kind {
	case "Put":
		return fmt.Sprintf("T%d Put(%s,%s)[%d,%d]", o.Thread, o.Key, o.Val, o.Call, o.Ret)
	case "Delete":
		return fmt.Sprintf("T%d Delete(%s)[%d,%d]", o.Thread, o.Key, o.Call, o.Ret)
	case "Get":
		return fmt.Sprintf("T%d Get(%s)=%q,%v[%d,%d]", o.Thread, o.Key, o.Val, o.Found, o.Call, o.Ret)
	case "Has":
		return fmt.Sprintf("T%d Has(%s)=%v[%d,%d]", o.Thread, o.Key, o.Found, o.Call, o.Ret)
	case "Count":
		return fmt.Sprintf("T%d Count=%d[%d,%d]", o.Thread, o.N, o.Call, o.Ret)
	}
	return fmt.Sprintf("T%d %s[%d,%d]", o.Thread, o.Kind, o.Call, o.Ret)
}

func stateKey(m map[string]string) string {
	ks := make([]string, 0, len(m))
	for k := range m {
		ks = append(ks, k)
	}
	sort.Strings(ks)
	var sb strings.Builder
	for _, k := range ks {
		sb.WriteString(k)
		sb.WriteByte(0)
		sb.WriteString(m[k])
		sb.WriteByte(1)
	}
	return sb.String()
}

// Linearize searches (Wing-Gong-Lowe with memoisation) for a sequential order of the operations
// that respects real-time order (a.Ret < b.Call => a before b) and the map specification, starting
// from the initial state. It returns whether one exists and the set of final states (as canonical
// strings -> state) of all accepting linearisations.
func Linearize(init map[string]string, ops []LinOp) (bool, []map[string]string) {
	n := len(ops)
	if n > 30 {
		panic("refmodel: history too long for the checker")
	}
	type memoKey struct {
		done  uint32
		state string
	}
	seen := map[memoKey]bool{}
	finals := map[string]map[string]string{}
	var rec func(done uint32, st map[string]string)
	rec = func(done uint32, st map[string]string) {
		mk := memoKey{done, stateKey(st)}
		if seen[mk] {
			return
		}
		seen[mk] = true
		if done == uint32(1)<<uint(n)-1 {
			cp := make(map[string]string, len(st))
			for k, v := range st {
				cp[k] = v
			}
			finals[mk.state] = cp
			return
		}
		// minimal operations: not done, and no other not-done operation returned before their call
		for i := 0; i < n; i++ {
			if done&(1<<uint(i)) != 0 {
				continue
			}
			minimal := true
			for j := 0; j < n; j++ {
				if j != i && done&(1<<uint(j)) == 0 && ops[j].Ret < ops[i].Call {
					minimal = false
					break
				}
			}
			if !minimal {
				continue
			}
			o := ops[i]
			apply := func(effect bool) {
				switch o.Kind {
				case "Put":
					if !effect {
						rec(done|1<<uint(i), st)
						return
					}
					old, had := st[o.Key]
					st[o.Key] = o.Val
					rec(done|1<<uint(i), st)
					if had {
						st[o.Key] = old
					} else {
						delete(st, o.Key)
					}
				case "Delete":
					if !effect {
						rec(done|1<<uint(i), st)
						return
					}
					old, had := st[o.Key]
					delete(st, o.Key)
					rec(done|1<<uint(i), st)
					if had {
						st[o.Key] = old
					}
				case "Get":
					v, had := st[o.Key]
					if had == o.Found && (!had || v == o.Val) {
						rec(done|1<<uint(i), st)
					}
				case "Has":
					if _, had := st[o.Key]; had == o.Found {
						rec(done|1<<uint(i), st)
					}
				case "Count":
					if len(st) == o.N {
						rec(done|1<<uint(i), st)
					}
				default:
					rec(done|1<<uint(i), st)
				}
			}
			apply(true)
			if o.Maybe && (o.Kind == "Put" || o.Kind == "Delete") {
				apply(false)
			}
		}
	}
	st := make(map[string]string, len(init))
	for k, v := range init {
		st[k] = v
	}
	rec(0, st)
	var res []map[string]string
	for _, f := range finals {
		res = append(res, f)
	}
	return len(res) > 0, res
}
