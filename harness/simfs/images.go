package simfs

import (
	"fmt"
	"path/filepath"
	"sort"
	"strings"
)

// SectorSize is the atomic write unit of the fault models.
const SectorSize = 512

func (f *FS) byID(id int) *Inode {
	for _, in := range f.files {
		if in.ID == id {
			return in
		}
	}
	return nil
}

func applyData(in *Inode, op Op, n int) {
	switch op.Kind {
	case OpWrite:
		data := op.Data
		if n >= 0 && n < len(data) {
			data = data[:n]
		}
		end := op.Off + int64(len(data))
		if end > int64(len(in.Data)) {
			nd := make([]byte, end)
			copy(nd, in.Data)
			in.Data = nd
		}
		copy(in.Data[op.Off:], data)
	case OpTruncate:
		if op.Size <= int64(len(in.Data)) {
			in.Data = in.Data[:op.Size:op.Size]
		} else {
			nd := make([]byte, op.Size)
			copy(nd, in.Data)
			in.Data = nd
		}
	}
}

// Apply applies a logged op to the tree (no logging, no hooks). A write may be cut to its first n
// bytes (n < 0: whole write).
func (f *FS) Apply(op Op, n int) {
	switch op.Kind {
	case OpCreate, OpLockCreate:
		if f.files[op.Name] == nil {
			f.files[op.Name] = &Inode{ID: op.Ino, Nlink: 1}
			if op.Ino >= f.nextID {
				f.nextID = op.Ino + 1
			}
		}
	case OpWrite, OpTruncate:
		if in := f.byID(op.Ino); in != nil {
			applyData(in, op, n)
		}
	case OpRename:
		if in := f.files[op.Name]; in != nil {
			delete(f.files, op.Name)
			f.files[op.Name2] = in
		}
	case OpRemove, OpLockRemove:
		delete(f.files, op.Name)
	case OpMkdir:
		f.dirs[op.Name] = true
	}
}

// TearPoints returns the byte counts n (0 < n < len) at which a write may be cut: the cut lies on
// a SectorSize-aligned file offset strictly inside the written range.
func TearPoints(op Op) []int {
	if op.Kind != OpWrite {
		return nil
	}
	var res []int
	end := op.Off + int64(len(op.Data))
	for b := (op.Off/SectorSize + 1) * SectorSize; b < end; b += SectorSize {
		res = append(res, int(b-op.Off))
	}
	return res
}

// Image is one disk image a fault can leave behind.
type Image struct {
	Pos  int    // ops[0:Pos) were issued
	Desc string // variant description (stored in replay files)
	FS   *FS
}

// CrashImages enumerates every process-crash image with log position in [from, to]: all calls that
// returned are applied; the call in flight is not applied or, for a write, applied up to a
// sector-aligned file offset. fn returns false to stop.
func CrashImages(base *FS, log []Op, from, to int, fn func(Image) bool) {
	cur := base.Clone()
	for i := 0; i < from && i < len(log); i++ {
		cur.Apply(log[i], -1)
	}
	for p := from; p <= to && p <= len(log); p++ {
		if !fn(Image{Pos: p, Desc: "clean", FS: cur.Clone()}) {
			return
		}
		if p == len(log) || p == to {
			break
		}
		for _, n := range TearPoints(log[p]) {
			im := cur.Clone()
			im.Apply(log[p], n)
			if !fn(Image{Pos: p, Desc: fmt.Sprintf("torn:%d", n), FS: im}) {
				return
			}
		}
		cur.Apply(log[p], -1)
	}
}

// CrashImageAt rebuilds one image from its (position, description).
func CrashImageAt(base *FS, log []Op, pos int, desc string) *FS {
	cur := base.Clone()
	for i := 0; i < pos && i < len(log); i++ {
		cur.Apply(log[i], -1)
	}
	if strings.HasPrefix(desc, "torn:") {
		var n int
		fmt.Sscanf(desc, "torn:%d", &n)
		cur.Apply(log[pos], n)
	}
	return cur
}

// ---------------------------------------------------------------------------------------------
// power loss

type plInode struct {
	id      int
	durable []byte
	pending []Op
}

// PowerLossOpts configures the power-loss enumerator.
type PowerLossOpts struct {
	// ReduceUnread: when the image contains LockName in Dir, files of Dir that are not segments
	// (not *.psg) are jointly represented by two variants (no pending op applied / all applied).
	ReduceUnread bool
	Dir          string
	LockName     string
	SegmentExt   string
	MaxPerPos    int // cap on images per position (0 = 4096)
}

// PowerLossStats reports what the enumerator produced.
type PowerLossStats struct {
	Positions int
	Images    int
	Capped    int // positions at which the cap bound
}

type plChoice struct {
	k    int // number of pending ops applied
	torn int // bytes of the last applied write kept (-1 whole)
}

// PowerLossImages enumerates, for every log position in [from, to], every image admitted by the
// power-loss model: directory operations are durable and ordered; per inode the durable content is
// that of its last Sync (or of the base image; empty for files created since) plus an in-order
// prefix of the writes/truncations issued since, the last of them optionally cut at a sector boundary.
func PowerLossImages(base *FS, log []Op, from, to int, o PowerLossOpts, fn func(Image) bool) PowerLossStats {
	var st PowerLossStats
	if o.MaxPerPos == 0 {
		o.MaxPerPos = 4096
	}
	dirState := base.Clone() // tracks names (content = everything applied)
	state := map[int]*plInode{}
	for _, in := range dirState.files {
		state[in.ID] = &plInode{id: in.ID, durable: append([]byte(nil), in.Data...)}
	}
	step := func(op Op) {
		switch op.Kind {
		case OpCreate, OpLockCreate:
			if state[op.Ino] == nil {
				state[op.Ino] = &plInode{id: op.Ino}
			}
		case OpWrite, OpTruncate:
			if s := state[op.Ino]; s != nil {
				s.pending = append(s.pending, op)
			}
		case OpSync:
			if s := state[op.Ino]; s != nil {
				tmp := &Inode{Data: s.durable}
				for _, p := range s.pending {
					applyData(tmp, p, -1)
				}
				s.durable = tmp.Data
				s.pending = nil
			}
		}
		dirState.Apply(op, -1)
	}
	for i := 0; i < from && i < len(log); i++ {
		step(log[i])
	}
	for p := from; p <= to && p <= len(log); p++ {
		st.Positions++
		if !plAt(dirState, state, p, o, &st, fn) {
			return st
		}
		if p == len(log) {
			break
		}
		step(log[p])
	}
	return st
}

func plAt(dirState *FS, state map[int]*plInode, pos int, o PowerLossOpts, st *PowerLossStats, fn func(Image) bool) bool {
	names := dirState.Names()
	lockPresent := o.ReduceUnread && dirState.Exists(filepath.Join(o.Dir, o.LockName))
	type fileVar struct {
		name    string
		s       *plInode
		choices []plChoice
		joint   bool
	}
	var vars []fileVar
	var joint []fileVar
	for _, n := range names {
		in := dirState.files[n]
		s := state[in.ID]
		if s == nil || len(s.pending) == 0 {
			continue
		}
		fv := fileVar{name: n, s: s}
		if lockPresent && filepath.Dir(n) == clean(o.Dir) && !strings.HasSuffix(n, o.SegmentExt) {
			fv.joint = true
			joint = append(joint, fv)
			continue
		}
		// choices ordered "everything applied" first, so that deviations come later
		for k := len(s.pending); k >= 0; k-- {
			fv.choices = append(fv.choices, plChoice{k: k, torn: -1})
			if k > 0 {
				tp := TearPoints(s.pending[k-1])
				for i := len(tp) - 1; i >= 0; i-- {
					fv.choices = append(fv.choices, plChoice{k: k, torn: tp[i]})
				}
			}
		}
		vars = append(vars, fv)
	}
	build := func(sel []int, jointAll bool) Image {
		im := New()
		im.nextID = dirState.nextID
		for d := range dirState.dirs {
			im.dirs[d] = true
		}
		var desc []string
		chosen := map[int]plChoice{}
		for i, v := range vars {
			chosen[v.s.id] = v.choices[sel[i]]
			if sel[i] != 0 {
				c := v.choices[sel[i]]
				desc = append(desc, fmt.Sprintf("%s:%d/%d:t%d", v.name, c.k, len(v.s.pending), c.torn))
			}
		}
		for _, v := range joint {
			if jointAll {
				chosen[v.s.id] = plChoice{k: len(v.s.pending), torn: -1}
			} else {
				chosen[v.s.id] = plChoice{k: 0, torn: -1}
			}
		}
		if len(joint) > 0 && !jointAll {
			desc = append(desc, "unread:none")
		}
		for _, n := range names {
			in := dirState.files[n]
			ni := &Inode{ID: in.ID, Nlink: 1}
			if s := state[in.ID]; s != nil {
				ni.Data = append([]byte(nil), s.durable...)
				if c, ok := chosen[in.ID]; ok {
					for j := 0; j < c.k; j++ {
						n := -1
						if j == c.k-1 {
							n = c.torn
						}
						applyData(ni, s.pending[j], n)
					}
				}
			} else {
				ni.Data = append([]byte(nil), in.Data...)
			}
			im.files[n] = ni
		}
		sort.Strings(desc)
		d := "all-applied"
		if len(desc) > 0 {
			d = strings.Join(desc, ",")
		}
		return Image{Pos: pos, Desc: d, FS: im}
	}
	total := 1
	for _, v := range vars {
		total *= len(v.choices)
		if total > 1<<30 {
			total = 1 << 30
		}
	}
	jointVariants := []bool{true}
	if len(joint) > 0 {
		jointVariants = []bool{true, false}
	}
	count := 0
	emit := func(sel []int) bool {
		for _, ja := range jointVariants {
			count++
			st.Images++
			if !fn(build(sel, ja)) {
				return false
			}
		}
		return true
	}
	sel := make([]int, len(vars))
	if total*len(jointVariants) <= o.MaxPerPos {
		for {
			if !emit(sel) {
				return false
			}
			i := 0
			for ; i < len(sel); i++ {
				sel[i]++
				if sel[i] < len(vars[i].choices) {
					break
				}
				sel[i] = 0
			}
			if i == len(sel) {
				break
			}
		}
		return true
	}
	// too large: deviation-bounded enumeration (baseline, then every single-file deviation, then pairs) up to the cap
	st.Capped++
	if !emit(sel) {
		return false
	}
	for i := range vars {
		for c := 1; c < len(vars[i].choices); c++ {
			if count >= o.MaxPerPos {
				return true
			}
			sel[i] = c
			if !emit(sel) {
				return false
			}
		}
		sel[i] = 0
	}
	for i := range vars {
		for j := i + 1; j < len(vars); j++ {
			for ci := 1; ci < len(vars[i].choices); ci++ {
				for cj := 1; cj < len(vars[j].choices); cj++ {
					if count >= o.MaxPerPos {
						return true
					}
					sel[i], sel[j] = ci, cj
					if !emit(sel) {
						return false
					}
				}
			}
			sel[i], sel[j] = 0, 0
		}
	}
	return true
}
