// Package simfs is the file system the harness owns: a deterministic in-memory implementation of
// pogreb's fs.FileSystem written from the interface contract and POSIX semantics, which records
// the totally ordered log of mutating calls so that every process-crash and power-loss image of a
// history can be reconstructed (images.go).
package simfs

import (
	"crypto/sha256"
	"encoding/binary"
	"encoding/hex"
	"fmt"
	"io"
	"os"
	"path/filepath"
	"sort"
	"strings"
	"syscall"
	"time"

	"github.com/akrylysov/pogreb/fs"
)

// OpKind is the kind of a logged mutating call.
type OpKind int

// Logged mutating calls.
const (
	OpCreate     OpKind = iota // Name -> new inode Ino
	OpWrite                    // Ino, Off, Data
	OpTruncate                 // Ino, Size
	OpSync                     // Ino
	OpRename                   // Name -> Name2
	OpRemove                   // Name
	OpLockCreate               // Name (lock file created or re-acquired; Existed says which)
	OpLockRemove               // Name
	OpMkdir                    // Name
)

func (k OpKind) String() string {
	return [...]string{"create", "write", "truncate", "sync", "rename", "remove", "lockcreate", "lockremove", "mkdir"}[k]
}

// Op is one entry of the op log.
type Op struct {
	Kind    OpKind
	Name    string
	Name2   string
	Ino     int
	Off     int64
	Size    int64
	Data    []byte
	Existed bool
	Tag     int // index of the API operation that issued the call
	Thread  int
}

func (o Op) String() string {
	switch o.Kind {
	case OpWrite:
		return fmt.Sprintf("write(ino%d %s off=%d len=%d)@%d", o.Ino, o.Name, o.Off, len(o.Data), o.Tag)
	case OpTruncate:
		return fmt.Sprintf("truncate(ino%d %s size=%d)@%d", o.Ino, o.Name, o.Size, o.Tag)
	case OpSync:
		return fmt.Sprintf("sync(ino%d %s)@%d", o.Ino, o.Name, o.Tag)
	case OpRename:
		return fmt.Sprintf("rename(%s->%s)@%d", o.Name, o.Name2, o.Tag)
	default:
		return fmt.Sprintf("%s(%s)@%d", o.Kind, o.Name, o.Tag)
	}
}

// Inode is a file body.
type Inode struct {
	ID       int
	Data     []byte
	Nlink    int
	Handles  int
	LockHeld bool
	slices   []*tracked
}

type tracked struct {
	buf    []byte
	handle *File
	orig   []byte // content when handed out (full capacity): memory returned by Slice belongs to the file system
}

// FS is the harness file system. It is not safe for concurrent use by free-running goroutines;
// under the cooperative scheduler exactly one thread runs at a time.
type FS struct {
	files      map[string]*Inode
	dirs       map[string]bool
	nextID     int
	nextHandle int

	Record bool
	Log    []Op
	Tag    int // tag stamped on logged ops (set by the harness before each API call)
	TagFn  func() (tag int, thread int)

	// Hook, when non-nil, is called at the start of every call (scheduling point / access recording).
	Hook func(label string, obj string, write bool, lo, hi int64)

	// Poison enables mmap-lifetime mode: memory handed out by Slice is overwritten with 0xA5 as soon
	// as the file is modified, truncated or the handle is closed.
	Poison bool

	// Fault injection: fail the n-th (1-based) mutating call with an error; 0 = off.
	FailAt int
	// FailPartial: when the injected fault hits a data write that crosses a 512-byte-aligned file offset, the bytes
	// before the last such offset are written before the error is returned (and the number of bytes written is
	// reported), like a write interrupted by ENOSPC/EIO; sector-granular like the tearing of the crash model.
	FailPartial bool
	mutations   int
	// FailCreateSuffix/FailCreateNth: the n-th creation (since the fields were set) of a file whose name ends in the suffix
	// fails once - a fault that names WHAT fails instead of the position of the call, for interleaved executions.
	FailCreateSuffix string
	FailCreateNth    int
	createCount      int

	Stats Stats
}

// Stats are counters read by the oracles.
type Stats struct {
	MaxReadLen     int64 // largest single read/slice length requested
	OpenHandles    int
	Calls          int
	BytesRead      int64
	SlicesHanded   int
	SlicesPoisoned int
	NonAppendSeg   int    // writes to *.psg files that did not start exactly at the end of the file
	NonAppendDesc  string // description of the first such write
}

// New returns an empty file system.
func New() *FS {
	return &FS{files: map[string]*Inode{}, dirs: map[string]bool{".": true, "/": true}}
}

var _ fs.FileSystem = (*FS)(nil)

func clean(name string) string { return filepath.Clean(name) }

func notExist(op, name string) error {
	return &os.PathError{Op: op, Path: name, Err: syscall.ENOENT}
}

// ErrInjected is returned by injected faults.
var ErrInjected = fmt.Errorf("simfs: injected I/O error")

func (f *FS) hook(label, obj string, write bool, lo, hi int64) {
	f.Stats.Calls++
	if f.Hook != nil {
		f.Hook(label, obj, write, lo, hi)
	}
}

// SlicesIntact reports whether any memory handed out by Slice (poison mode) that is still valid was
// modified by somebody else than the file system: "" if intact, else a description.
func (f *FS) SlicesIntact() string {
	for name, in := range f.files {
		for _, t := range in.slices {
			for i := range t.buf {
				if t.buf[i] != t.orig[i] {
					return fmt.Sprintf("memory handed out by File.Slice of %s was written to by the caller of the database (offset %d of the returned region: %#x -> %#x)", name, i, t.orig[i], t.buf[i])
				}
			}
		}
	}
	return ""
}

// OrphanHandles returns the number of open handles on files that no path names any more (unlinked
// while open and never closed: a descriptor/mapping leak).
func (f *FS) OrphanHandles() int {
	linked := 0
	seen := map[*Inode]bool{}
	for _, in := range f.files {
		if !seen[in] {
			seen[in] = true
			linked += in.Handles
		}
	}
	return f.Stats.OpenHandles - linked
}

// Mutations returns the number of mutating calls made so far (fault-injection bookkeeping).
func (f *FS) Mutations() int { return f.mutations }

func (f *FS) mutate() error {
	f.mutations++
	if f.FailAt > 0 && f.mutations == f.FailAt {
		return ErrInjected
	}
	return nil
}

func (f *FS) log(op Op) {
	if !f.Record {
		return
	}
	op.Tag = f.Tag
	if f.TagFn != nil {
		op.Tag, op.Thread = f.TagFn()
	}
	f.Log = append(f.Log, op)
}

// NameOfObj maps the object name passed to Hook ("ino:<id>[:suffix]") to the (smallest) path of that
// inode, "" if it has none (unlinked) or the object is the directory table.
func (f *FS) NameOfObj(obj string) string {
	if !strings.HasPrefix(obj, "ino:") {
		return ""
	}
	id := 0
	for _, ch := range obj[4:] {
		if ch < '0' || ch > '9' {
			break
		}
		id = id*10 + int(ch-'0')
	}
	best := ""
	for n, x := range f.files {
		if x.ID == id && (best == "" || n < best) {
			best = n
		}
	}
	return best
}

func inoObj(in *Inode) string { return fmt.Sprintf("ino:%d", in.ID) }

func (f *FS) nameOf(in *Inode) string {
	var best string
	for n, x := range f.files {
		if x == in && (best == "" || n < best) {
			best = n
		}
	}
	return best
}

// OpenFile implements fs.FileSystem.
func (f *FS) OpenFile(name string, flag int, perm os.FileMode) (fs.File, error) {
	name = clean(name)
	if flag&os.O_APPEND != 0 {
		return nil, fmt.Errorf("simfs: append mode is not supported")
	}
	in := f.files[name]
	write := in == nil && flag&os.O_CREATE != 0
	f.hook("OpenFile", "dir", write, 0, 0)
	in = f.files[name]
	if in == nil {
		if flag&os.O_CREATE == 0 {
			return nil, notExist("open", name)
		}
		if !f.dirs[filepath.Dir(name)] {
			return nil, notExist("open", name)
		}
		if f.FailCreateSuffix != "" && strings.HasSuffix(name, f.FailCreateSuffix) {
			f.createCount++
			if f.createCount == f.FailCreateNth {
				f.mutations++
				return nil, ErrInjected
			}
		}
		if err := f.mutate(); err != nil {
			return nil, err
		}
		in = &Inode{ID: f.nextID, Nlink: 1}
		f.nextID++
		f.files[name] = in
		f.log(Op{Kind: OpCreate, Name: name, Ino: in.ID})
	} else if flag&os.O_TRUNC != 0 && len(in.Data) > 0 {
		if err := f.mutate(); err != nil {
			return nil, err
		}
		f.poison(in, nil)
		in.Data = nil
		f.log(Op{Kind: OpTruncate, Name: name, Ino: in.ID, Size: 0})
	}
	in.Handles++
	f.Stats.OpenHandles++
	ro := flag&(os.O_RDWR|os.O_WRONLY) == 0
	f.nextHandle++
	return &File{fs: f, in: in, name: name, readonly: ro, id: f.nextHandle}, nil
}

// Stat implements fs.FileSystem.
func (f *FS) Stat(name string) (os.FileInfo, error) {
	name = clean(name)
	f.hook("Stat", "dir", false, 0, 0)
	in := f.files[name]
	if in == nil {
		if f.dirs[name] {
			return &info{name: filepath.Base(name), dir: true}, nil
		}
		return nil, notExist("stat", name)
	}
	return &info{name: filepath.Base(name), size: int64(len(in.Data))}, nil
}

// Remove implements fs.FileSystem.
func (f *FS) Remove(name string) error {
	name = clean(name)
	f.hook("Remove", "dir", true, 0, 0)
	in := f.files[name]
	if in == nil {
		return notExist("remove", name)
	}
	if err := f.mutate(); err != nil {
		return err
	}
	delete(f.files, name)
	in.Nlink--
	f.log(Op{Kind: OpRemove, Name: name, Ino: in.ID})
	return nil
}

// Rename implements fs.FileSystem.
func (f *FS) Rename(oldpath, newpath string) error {
	oldpath, newpath = clean(oldpath), clean(newpath)
	f.hook("Rename", "dir", true, 0, 0)
	in := f.files[oldpath]
	if in == nil {
		return &os.LinkError{Op: "rename", Old: oldpath, New: newpath, Err: syscall.ENOENT}
	}
	if err := f.mutate(); err != nil {
		return err
	}
	if old := f.files[newpath]; old != nil {
		old.Nlink--
	}
	delete(f.files, oldpath)
	f.files[newpath] = in
	f.log(Op{Kind: OpRename, Name: oldpath, Name2: newpath, Ino: in.ID})
	return nil
}

// ReadDir implements fs.FileSystem (entries sorted by name, like os.ReadDir).
func (f *FS) ReadDir(name string) ([]os.DirEntry, error) {
	name = clean(name)
	f.hook("ReadDir", "dir", false, 0, 0)
	if !f.dirs[name] {
		return nil, notExist("open", name)
	}
	var names []string
	for n := range f.files {
		if filepath.Dir(n) == name {
			names = append(names, n)
		}
	}
	for d := range f.dirs {
		if d != name && filepath.Dir(d) == name && d != "." && d != "/" {
			names = append(names, d)
		}
	}
	sort.Strings(names)
	var res []os.DirEntry
	for _, n := range names {
		if in := f.files[n]; in != nil {
			res = append(res, &info{name: filepath.Base(n), size: int64(len(in.Data)), fs: f, in: in})
		} else {
			res = append(res, &info{name: filepath.Base(n), dir: true})
		}
	}
	return res, nil
}

// MkdirAll implements fs.FileSystem.
func (f *FS) MkdirAll(path string, perm os.FileMode) error {
	path = clean(path)
	f.hook("MkdirAll", "dir", !f.dirs[path], 0, 0)
	if f.files[path] != nil {
		return &os.PathError{Op: "mkdir", Path: path, Err: syscall.ENOTDIR}
	}
	for p := path; ; p = filepath.Dir(p) {
		if !f.dirs[p] {
			f.dirs[p] = true
			f.log(Op{Kind: OpMkdir, Name: p})
		}
		if p == "." || p == "/" || p == filepath.Dir(p) {
			break
		}
	}
	return nil
}

// CreateLockFile implements fs.FileSystem: an exclusive lock that dies with the "process".
func (f *FS) CreateLockFile(name string, perm os.FileMode) (fs.LockFile, bool, error) {
	name = clean(name)
	f.hook("CreateLockFile", "dir", true, 0, 0)
	in := f.files[name]
	existed := in != nil
	if existed && in.LockHeld {
		return nil, false, os.ErrExist
	}
	if !existed {
		if !f.dirs[filepath.Dir(name)] {
			return nil, false, notExist("open", name)
		}
		if err := f.mutate(); err != nil {
			return nil, false, err
		}
		in = &Inode{ID: f.nextID, Nlink: 1}
		f.nextID++
		f.files[name] = in
	}
	in.LockHeld = true
	in.Handles++
	f.Stats.OpenHandles++
	f.log(Op{Kind: OpLockCreate, Name: name, Ino: in.ID, Existed: existed})
	return &lockFile{fs: f, in: in, name: name}, existed, nil
}

type lockFile struct {
	fs       *FS
	in       *Inode
	name     string
	released bool
}

func (l *lockFile) Unlock() error {
	l.fs.hook("Unlock", "dir", true, 0, 0)
	if l.released {
		return os.ErrClosed
	}
	if err := l.fs.mutate(); err != nil {
		return err
	}
	if l.fs.files[l.name] == l.in {
		delete(l.fs.files, l.name)
		l.in.Nlink--
		l.fs.log(Op{Kind: OpLockRemove, Name: l.name, Ino: l.in.ID})
	} else {
		// the path no longer names our inode: os.Remove would fail or remove somebody else's file;
		// mirror os semantics: remove whatever is there
		if other := l.fs.files[l.name]; other != nil {
			delete(l.fs.files, l.name)
			other.Nlink--
			l.fs.log(Op{Kind: OpLockRemove, Name: l.name, Ino: other.ID})
		} else {
			return notExist("remove", l.name)
		}
	}
	l.released = true
	l.in.LockHeld = false
	l.in.Handles--
	l.fs.Stats.OpenHandles--
	return nil
}

type info struct {
	name string
	size int64
	dir  bool
	fs   *FS
	in   *Inode
}

func (i *info) Name() string       { return i.name }
func (i *info) Size() int64        { return i.size }
func (i *info) Mode() os.FileMode  { return 0640 }
func (i *info) ModTime() time.Time { return time.Time{} }
func (i *info) IsDir() bool        { return i.dir }
func (i *info) Sys() interface{}   { return nil }
func (i *info) Type() os.FileMode  { return 0 }
func (i *info) Info() (os.FileInfo, error) {
	// like os.DirEntry.Info: an lstat at the time of the call
	if i.fs != nil && i.in != nil {
		i.fs.hook("DirEntry.Info", inoObj(i.in)+":meta", false, 0, 0)
		if i.in.Nlink == 0 {
			return nil, notExist("lstat", i.name)
		}
		return &info{name: i.name, size: int64(len(i.in.Data))}, nil
	}
	return i, nil
}

// File is an open handle.
type File struct {
	fs       *FS
	in       *Inode
	name     string
	off      int64
	readonly bool
	closed   bool
	id       int
	// wrote: data was written through this handle and not synced since: its Close is a fault-injection point. A
	// close that reports an error stands for a deferred write-out failure (NFS, delayed allocation): the bytes
	// written since the last Sync, from offset dirtyFrom on, never reached the file.
	wrote     bool
	dirtyFrom int64
}

var _ fs.File = (*File)(nil)

// acc reports an access to the handle's own state - the part of an open file that is not safe for
// concurrent use even on a file system whose calls are atomic: "map" = length and memory mapping of
// the handle (written by Write/WriteAt/Truncate/Close, read by Slice; cf. osMMapFile), "off" = the
// sequential offset (Seek/Read/Write). No Stats are touched and no yield is implied.
func (h *File) acc(label, sub string, write bool) {
	if h.fs.Hook != nil {
		h.fs.Hook(label, fmt.Sprintf("h:%d:%s", h.id, sub), write, 0, 0)
	}
}

func (h *File) obj() string { return inoObj(h.in) }

// Close implements fs.File.
func (h *File) Close() error {
	h.acc("Close", "map", true)
	h.fs.hook("Close", h.obj()+":handle", false, 0, 0)
	if h.closed {
		return os.ErrClosed
	}
	h.closed = true
	h.in.Handles--
	h.fs.Stats.OpenHandles--
	h.fs.poison(h.in, h)
	if h.wrote {
		// the handle is closed either way; an injected fault makes Close report an error and loses the
		// unsynced tail written through it
		if err := h.fs.mutate(); err != nil {
			if h.dirtyFrom < int64(len(h.in.Data)) {
				h.in.Data = h.in.Data[:h.dirtyFrom:h.dirtyFrom]
				h.fs.log(Op{Kind: OpTruncate, Name: h.name, Ino: h.in.ID, Size: h.dirtyFrom})
			}
			return err
		}
	}
	return nil
}

func (h *File) readAt(p []byte, off int64) (int, error) {
	if int64(len(p)) > h.fs.Stats.MaxReadLen {
		h.fs.Stats.MaxReadLen = int64(len(p))
	}
	if off >= int64(len(h.in.Data)) {
		return 0, io.EOF
	}
	n := copy(p, h.in.Data[off:])
	h.fs.Stats.BytesRead += int64(n)
	if n < len(p) {
		return n, io.EOF
	}
	return n, nil
}

// ReadAt implements fs.File.
func (h *File) ReadAt(p []byte, off int64) (int, error) {
	h.fs.hook("ReadAt", h.obj(), false, off, off+int64(len(p)))
	if h.closed {
		return 0, os.ErrClosed
	}
	if off < 0 {
		return 0, fmt.Errorf("simfs: negative offset")
	}
	return h.readAt(p, off)
}

// Read implements fs.File.
func (h *File) Read(p []byte) (int, error) {
	h.acc("Read", "off", true)
	h.fs.hook("Read", h.obj(), false, h.off, h.off+int64(len(p)))
	if h.closed {
		return 0, os.ErrClosed
	}
	if len(p) == 0 {
		return 0, nil
	}
	n, err := h.readAt(p, h.off)
	h.off += int64(n)
	if n > 0 {
		return n, nil
	}
	return n, err
}

func (h *File) writeAt(p []byte, off int64) (int, error) {
	if h.readonly {
		return 0, &os.PathError{Op: "write", Path: h.name, Err: syscall.EBADF}
	}
	if !h.wrote || off < h.dirtyFrom {
		h.dirtyFrom = off
	}
	h.wrote = true
	if err := h.fs.mutate(); err != nil {
		// sector-granular, like the tearing of the crash model: the write is applied up to the last
		// 512-byte-aligned file offset strictly inside it (nothing if it does not cross one)
		cut := (off + int64(len(p)) - 1) / 512 * 512
		if h.fs.FailPartial && cut > off {
			half := p[:cut-off]
			h.fs.poison(h.in, nil)
			end := off + int64(len(half))
			if end > int64(len(h.in.Data)) {
				nd := make([]byte, end)
				copy(nd, h.in.Data)
				h.in.Data = nd
			}
			copy(h.in.Data[off:], half)
			h.fs.log(Op{Kind: OpWrite, Name: h.name, Ino: h.in.ID, Off: off, Data: append([]byte(nil), half...)})
			return len(half), err
		}
		return 0, err
	}
	h.fs.poison(h.in, nil)
	if off != int64(len(h.in.Data)) && strings.HasSuffix(h.name, ".psg") {
		h.fs.Stats.NonAppendSeg++
		if h.fs.Stats.NonAppendDesc == "" {
			h.fs.Stats.NonAppendDesc = fmt.Sprintf("write of %d bytes to %s at offset %d, file length %d", len(p), h.name, off, len(h.in.Data))
		}
	}
	end := off + int64(len(p))
	if end > int64(len(h.in.Data)) {
		nd := make([]byte, end)
		copy(nd, h.in.Data)
		h.in.Data = nd
	}
	copy(h.in.Data[off:], p)
	h.fs.log(Op{Kind: OpWrite, Name: h.name, Ino: h.in.ID, Off: off, Data: append([]byte(nil), p...)})
	return len(p), nil
}

// WriteAt implements fs.File.
func (h *File) WriteAt(p []byte, off int64) (int, error) {
	h.acc("WriteAt", "map", true)
	h.fs.hook("WriteAt", h.obj(), true, off, off+int64(len(p)))
	if h.closed {
		return 0, os.ErrClosed
	}
	if off < 0 {
		return 0, fmt.Errorf("simfs: negative offset")
	}
	return h.writeAt(p, off)
}

// Write implements fs.File.
func (h *File) Write(p []byte) (int, error) {
	h.acc("Write", "map", true)
	h.acc("Write", "off", true)
	h.fs.hook("Write", h.obj(), true, h.off, h.off+int64(len(p)))
	if h.closed {
		return 0, os.ErrClosed
	}
	n, err := h.writeAt(p, h.off)
	h.off += int64(n)
	return n, err
}

// Seek implements fs.File.
func (h *File) Seek(offset int64, whence int) (int64, error) {
	h.acc("Seek", "off", true)
	if h.closed {
		return 0, os.ErrClosed
	}
	switch whence {
	case io.SeekStart:
		h.off = offset
	case io.SeekCurrent:
		h.off += offset
	case io.SeekEnd:
		h.off = int64(len(h.in.Data)) + offset
	}
	if h.off < 0 {
		h.off = 0
		return 0, fmt.Errorf("simfs: negative position")
	}
	return h.off, nil
}

// Stat implements fs.File.
func (h *File) Stat() (os.FileInfo, error) {
	h.fs.hook("File.Stat", h.obj()+":meta", false, 0, 0)
	if h.closed {
		return nil, os.ErrClosed
	}
	return &info{name: filepath.Base(h.name), size: int64(len(h.in.Data))}, nil
}

// Sync implements fs.File.
func (h *File) Sync() error {
	h.acc("Sync", "map", false) // uses the descriptor / mapping that Close and a remap invalidate
	h.fs.hook("Sync", h.obj()+":sync", true, 0, 0)
	if h.closed {
		return os.ErrClosed
	}
	if err := h.fs.mutate(); err != nil {
		return err
	}
	h.fs.log(Op{Kind: OpSync, Name: h.name, Ino: h.in.ID})
	h.wrote = false
	return nil
}

// Truncate implements fs.File.
func (h *File) Truncate(size int64) error {
	h.acc("Truncate", "map", true)
	h.fs.hook("Truncate", h.obj(), true, 0, 0)
	if h.closed {
		return os.ErrClosed
	}
	if h.readonly {
		return &os.PathError{Op: "truncate", Path: h.name, Err: syscall.EINVAL}
	}
	if err := h.fs.mutate(); err != nil {
		return err
	}
	h.fs.poison(h.in, nil)
	if size <= int64(len(h.in.Data)) {
		h.in.Data = h.in.Data[:size:size]
	} else {
		nd := make([]byte, size)
		copy(nd, h.in.Data)
		h.in.Data = nd
	}
	h.fs.log(Op{Kind: OpTruncate, Name: h.name, Ino: h.in.ID, Size: size})
	return nil
}

// Slice implements fs.File.
func (h *File) Slice(start int64, end int64) ([]byte, error) {
	h.acc("Slice", "map", false)
	h.fs.hook("Slice", h.obj(), false, start, end)
	if h.closed {
		return nil, os.ErrClosed
	}
	if end-start > h.fs.Stats.MaxReadLen {
		h.fs.Stats.MaxReadLen = end - start
	}
	if end > int64(len(h.in.Data)) {
		return nil, io.EOF
	}
	if start < 0 || start > end {
		return nil, fmt.Errorf("simfs: bad slice range")
	}
	buf := append([]byte(nil), h.in.Data[start:end]...)
	h.fs.Stats.BytesRead += end - start
	if h.fs.Poison {
		// hand out a slice with spare capacity behind it (like a view into a larger mapping) and remember the
		// whole region: a caller that writes into it - directly or by appending within the capacity - is caught
		region := make([]byte, end-start, end-start+64)
		copy(region, buf)
		full := region[:cap(region)]
		for i := end - start; i < int64(len(full)); i++ {
			full[i] = 0x5C
		}
		buf = region
		h.in.slices = append(h.in.slices, &tracked{buf: full, handle: h, orig: append([]byte(nil), full...)})
		h.fs.Stats.SlicesHanded++
	}
	return buf, nil
}

// poison overwrites memory handed out by Slice: all of the inode's (handle == nil) or that of one handle.
func (f *FS) poison(in *Inode, handle *File) {
	if !f.Poison || len(in.slices) == 0 {
		return
	}
	keep := in.slices[:0]
	for _, t := range in.slices {
		if handle == nil || t.handle == handle {
			for i := range t.buf {
				t.buf[i] = 0xA5
			}
			f.Stats.SlicesPoisoned++
		} else {
			keep = append(keep, t)
		}
	}
	in.slices = keep
}

// ---------------------------------------------------------------------------------------------
// snapshots, hashing, inspection

// Clone returns a deep copy of the file-system state as a new FS: open handles and lock holders
// are dropped ("the process died"), the lock file stays if present. Log and hooks are not copied.
func (f *FS) Clone() *FS {
	c := New()
	c.nextID = f.nextID
	for d := range f.dirs {
		c.dirs[d] = true
	}
	seen := map[*Inode]*Inode{}
	for n, in := range f.files {
		ni := seen[in]
		if ni == nil {
			ni = &Inode{ID: in.ID, Data: append([]byte(nil), in.Data...)}
			seen[in] = ni
		}
		ni.Nlink++
		c.files[n] = ni
	}
	return c
}

// SubImage returns a new file system holding copies of the files directly in dir, placed in directory as.
func (f *FS) SubImage(dir, as string) *FS {
	c := New()
	dir = clean(dir)
	for _, n := range f.NamesIn(dir) {
		c.SetBytes(as+"/"+n, append([]byte(nil), f.Bytes(dir+"/"+n)...))
	}
	c.dirs[clean(as)] = true
	return c
}

// Names returns the sorted list of paths.
func (f *FS) Names() []string {
	var ns []string
	for n := range f.files {
		ns = append(ns, n)
	}
	sort.Strings(ns)
	return ns
}

// NamesIn returns the sorted base names of the files directly in dir.
func (f *FS) NamesIn(dir string) []string {
	dir = clean(dir)
	var ns []string
	for n := range f.files {
		if filepath.Dir(n) == dir {
			ns = append(ns, filepath.Base(n))
		}
	}
	sort.Strings(ns)
	return ns
}

// Bytes returns the content of the file (nil if missing).
func (f *FS) Bytes(name string) []byte {
	in := f.files[clean(name)]
	if in == nil {
		return nil
	}
	return in.Data
}

// Exists reports whether the path names a file.
func (f *FS) Exists(name string) bool { return f.files[clean(name)] != nil }

// SetBytes creates or replaces a file without logging (image construction).
func (f *FS) SetBytes(name string, data []byte) {
	name = clean(name)
	for p := filepath.Dir(name); ; p = filepath.Dir(p) {
		f.dirs[p] = true
		if p == "." || p == "/" || p == filepath.Dir(p) {
			break
		}
	}
	in := f.files[name]
	if in == nil {
		in = &Inode{ID: f.nextID, Nlink: 1}
		f.nextID++
		f.files[name] = in
	}
	in.Data = append([]byte(nil), data...)
}

// Delete removes a file without logging (image construction).
func (f *FS) Delete(name string) { delete(f.files, clean(name)) }

// HandlesOf returns the number of open handles on the path's inode (-1 if missing).
func (f *FS) HandlesOf(name string) int {
	in := f.files[clean(name)]
	if in == nil {
		return -1
	}
	return in.Handles
}

// TotalBytes returns the sum of the file sizes below dir.
func (f *FS) TotalBytes(dir string) int64 {
	dir = clean(dir)
	var s int64
	for n, in := range f.files {
		if filepath.Dir(n) == dir {
			s += int64(len(in.Data))
		}
	}
	return s
}

// Hash returns a digest of the directory tree (names, contents).
func (f *FS) Hash() string {
	h := sha256.New()
	var lenbuf [8]byte
	for _, n := range f.Names() {
		in := f.files[n]
		binary.LittleEndian.PutUint64(lenbuf[:], uint64(len(n)))
		h.Write(lenbuf[:])
		io.WriteString(h, n)
		binary.LittleEndian.PutUint64(lenbuf[:], uint64(len(in.Data)))
		h.Write(lenbuf[:])
		h.Write(in.Data)
	}
	return hex.EncodeToString(h.Sum(nil)[:16])
}

// Describe returns a one-line description of the tree (names and sizes).
func (f *FS) Describe() string {
	var sb strings.Builder
	for _, n := range f.Names() {
		fmt.Fprintf(&sb, "%s:%d ", n, len(f.files[n].Data))
	}
	return strings.TrimSpace(sb.String())
}
