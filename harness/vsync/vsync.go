// Package vsync is a drop-in replacement for the parts of package sync that pogreb uses
// (Mutex, RWMutex, WaitGroup) plus Go/Select/Yield seams. With no scheduler attached every
// operation delegates to the real sync primitive (pass-through mode). With a scheduler attached
// (Sched.Run) every blocking operation is a scheduling point of a cooperative scheduler under
// which exactly one thread runs at a time and the explorer decides who runs next.
package vsync

import (
	"fmt"
	"reflect"
	"runtime/debug"
	"sort"
	"strings"
	"sync"
	"time"
)

var active *Sched

// Active reports whether a controlled scheduler is attached.
func Active() bool { return active != nil }

type abortSentinel struct{}

type thread struct {
	id      int
	name    string
	fn      func()
	wake    chan struct{}
	exited  chan struct{}
	done    bool
	parked  bool
	daemon  bool // created through Go (not by the harness)
	pending *pendingOp
	vc      vclock
	held    []string
	ops     int // number of scheduling points passed
	quiet   int // >0: enabled scheduling points of this thread are not offered to the explorer (see Quiet)
}

type pendingOp struct {
	label   string
	enabled func() bool
}

type vclock map[int]int

func (v vclock) clone() vclock {
	c := make(vclock, len(v))
	for k, x := range v {
		c[k] = x
	}
	return c
}

func (v vclock) join(o vclock) {
	for k, x := range o {
		if v[k] < x {
			v[k] = x
		}
	}
}

// leq reports whether the event (tid, clk) happens before or equals the clock v.
func (v vclock) covers(tid, clk int) bool { return v[tid] >= clk }

// PointKind distinguishes thread choices from data (environment) choices.
type PointKind int

const (
	ThreadChoice PointKind = iota
	DataChoice
)

// Point is one recorded choice point of an execution.
type Point struct {
	Kind           PointKind
	N              int   // number of alternatives
	Enabled        []int // thread ids (ThreadChoice)
	RunningEnabled bool  // alternative 0 is "stay on the running thread"
	Chosen         int
	Label          string
	Asleep         []bool // per enabled thread: in the sleep set at this point (sleep-set reduction)
}

// Access is one recorded access to a shared object (reported by the harness file system).
type Access struct {
	Thread int
	Clock  int
	Obj    string
	Write  bool
	Lo, Hi int64 // byte range, Hi==0 means whole object
	Label  string
	VC     vclock
	Held   []string
}

// Race is a pair of conflicting accesses not ordered by happens-before.
type Race struct{ A, B Access }

func (r Race) String() string {
	return fmt.Sprintf("race on %s: T%d %s (write=%v held=%v) || T%d %s (write=%v held=%v)",
		r.A.Obj, r.A.Thread, r.A.Label, r.A.Write, r.A.Held, r.B.Thread, r.B.Label, r.B.Write, r.B.Held)
}

// Key identifies the race independent of schedule details.
func (r Race) Key() string {
	a := fmt.Sprintf("%s/%v", r.A.Label, r.A.Write)
	b := fmt.Sprintf("%s/%v", r.B.Label, r.B.Write)
	if a > b {
		a, b = b, a
	}
	return objClass(r.A.Obj) + ":" + a + "||" + b
}

func objClass(o string) string {
	if i := strings.IndexByte(o, ':'); i >= 0 {
		return o[:i]
	}
	return o
}

// Exec is the result of one execution.
type Exec struct {
	Points        []Point
	Choices       []int
	Panic         string // non-empty if a thread panicked (value + stack)
	PanicThread   string
	Deadlock      string   // non-empty on deadlock (wait-for description)
	Horizon       bool     // step limit hit
	Divergence    string   // replay divergence (harness error)
	PrivateBroken bool     // a mutex treated as thread-private (PrivateQuiet) was later used by a second thread
	SleepBlocked  bool     // abandoned: every enabled thread was in the sleep set (redundant execution)
	LiveThreads   []string // threads (created through Go) still alive when main returned
	Races         []Race
	Steps         int
	Trace         []string // per step "T<id>:<label>" (only when Sched.KeepTrace)
}

// Failed reports whether the execution ended abnormally.
func (x *Exec) Failed() bool {
	return x.Panic != "" || x.Deadlock != "" || x.Horizon || x.Divergence != ""
}

// Sched is a cooperative scheduler for one execution.
type Sched struct {
	epoch        uint64
	threads      []*thread
	cur          *thread
	prefix       []int
	x            *Exec
	finished     chan struct{}
	finishOnce   sync.Once
	aborting     bool
	MaxSteps     int
	TickBudget   int
	KeepTrace    bool
	TrackRaces   bool
	PrivateQuiet bool  // operations on a mutex only one thread has ever used are not scheduling points
	UseSleep     bool  // sleep-set reduction (thread-start transitions commute with everything)
	SleepAt      []int // thread ids asleep at the last choice point of the prefix
	sleep        map[int]bool
	accesses     map[string][]Access
	raceKeys     map[string]bool
	lockVCs      map[interface{}]*lockVC
	mainDone     bool
	clock        int
	lockNames    map[interface{}]string
}

// lockName returns a name for the lock that is stable across executions of the same schedule
// (locks are numbered in the order of their first use; addresses would differ between runs).
func lockName(m interface{}, prefix string) string {
	s := active
	if s == nil {
		return prefix
	}
	if s.lockNames == nil {
		s.lockNames = map[interface{}]string{}
	}
	n, ok := s.lockNames[m]
	if !ok {
		n = fmt.Sprintf("%s%d", prefix, len(s.lockNames)+1)
		s.lockNames[m] = n
	}
	return n
}

type lockVC struct{ w, r vclock }

var runEpoch uint64

// Run executes main (thread 0) under the scheduler, replaying prefix and then taking
// alternative 0 at every later choice point.
func Run(prefix []int, cfg Sched, main func()) *Exec {
	if active != nil {
		panic("vsync: nested Run")
	}
	s := &cfg
	runEpoch++
	s.epoch = runEpoch
	s.prefix = prefix
	s.x = &Exec{}
	s.finished = make(chan struct{})
	if s.MaxSteps == 0 {
		s.MaxSteps = 200000
	}
	s.accesses = map[string][]Access{}
	s.raceKeys = map[string]bool{}
	s.lockVCs = map[interface{}]*lockVC{}
	active = s
	t := s.newThread("main", main, false)
	t.vc = vclock{0: 1}
	s.cur = t
	t.parked = false
	t.wake <- struct{}{}
	<-s.finished
	// The thread that ended the execution unwinds first, then the rest, one thread at a time.
	<-s.cur.exited
	for i := 0; i < len(s.threads); i++ {
		th := s.threads[i]
		select {
		case <-th.exited:
			continue
		default:
		}
		if th.parked {
			th.parked = false
			th.wake <- struct{}{}
		}
		<-th.exited
	}
	active = nil
	s.x.Choices = make([]int, len(s.x.Points))
	for i, p := range s.x.Points {
		s.x.Choices[i] = p.Chosen
	}
	return s.x
}

func (s *Sched) newThread(name string, fn func(), daemon bool) *thread {
	t := &thread{id: len(s.threads), name: name, fn: fn, wake: make(chan struct{}, 1), exited: make(chan struct{}), daemon: daemon}
	t.pending = &pendingOp{label: "start"}
	t.parked = true
	s.threads = append(s.threads, t)
	go s.threadBody(t)
	return t
}

func (s *Sched) threadBody(t *thread) {
	defer close(t.exited)
	<-t.wake
	if s.aborting {
		return
	}
	t.pending = nil
	defer func() {
		if r := recover(); r != nil {
			if _, ok := r.(abortSentinel); ok {
				return
			}
			if s.aborting {
				return
			}
			s.x.Panic = fmt.Sprintf("%v\n%s", r, debug.Stack())
			s.x.PanicThread = t.name
			s.aborting = true
			s.finish()
		}
	}()
	t.fn()
	t.done = true
	if t.id == 0 {
		s.mainDone = true
		for _, o := range s.threads {
			if !o.done && o.daemon {
				lbl := "running"
				if o.pending != nil {
					lbl = o.pending.label
				}
				s.x.LiveThreads = append(s.x.LiveThreads, fmt.Sprintf("%s@%s", o.name, lbl))
			}
		}
		s.aborting = true
		s.finish()
		return
	}
	s.reschedule(t)
}

func (s *Sched) finish() { s.finishOnce.Do(func() { close(s.finished) }) }

func (s *Sched) fail(set func(x *Exec)) {
	set(s.x)
	s.aborting = true
	s.finish()
	panic(abortSentinel{})
}

// point is a scheduling point of the running thread.
func (s *Sched) point(label string, enabled func() bool) {
	if s.aborting {
		return
	}
	t := s.cur
	if t.quiet > 0 && (enabled == nil || enabled()) {
		t.ops++
		return
	}
	t.pending = &pendingOp{label: label, enabled: enabled}
	s.reschedule(t)
	t.pending = nil
	t.ops++
}

func (p *pendingOp) isEnabled() bool { return p.enabled == nil || p.enabled() }

func (s *Sched) reschedule(from *thread) {
	s.x.Steps++
	if s.x.Steps > s.MaxSteps {
		s.fail(func(x *Exec) { x.Horizon = true })
	}
	var enabled []*thread
	fromEnabled := !from.done && from.pending != nil && from.pending.isEnabled()
	if fromEnabled {
		enabled = append(enabled, from)
	}
	for _, t := range s.threads {
		if t == from || t.done || t.pending == nil {
			continue
		}
		if t.pending.isEnabled() {
			enabled = append(enabled, t)
		}
	}
	if len(enabled) == 0 {
		var w []string
		for _, t := range s.threads {
			if !t.done && t.pending != nil {
				w = append(w, fmt.Sprintf("%s waits at %s holding %v", t.name, t.pending.label, t.held))
			}
		}
		s.fail(func(x *Exec) { x.Deadlock = strings.Join(w, "; ") })
	}
	idx := 0
	k := len(s.x.Points)
	past := k >= len(s.prefix) // beyond the replayed prefix
	if len(enabled) > 1 {
		p := Point{Kind: ThreadChoice, N: len(enabled), RunningEnabled: fromEnabled}
		for _, t := range enabled {
			p.Enabled = append(p.Enabled, t.id)
		}
		if !past {
			idx = s.prefix[k]
			if idx < 0 || idx >= len(enabled) {
				s.fail(func(x *Exec) {
					x.Divergence = fmt.Sprintf("choice %d at point %d out of range (enabled %v)", idx, k, p.Enabled)
				})
			}
			if s.UseSleep && k == len(s.prefix)-1 {
				s.sleep = map[int]bool{}
				for _, id := range s.SleepAt {
					s.sleep[id] = true
				}
			}
		} else if s.UseSleep {
			p.Asleep = make([]bool, len(enabled))
			idx = -1
			for i, t := range enabled {
				p.Asleep[i] = s.sleep[t.id]
				if idx < 0 && !p.Asleep[i] {
					idx = i
				}
			}
			if idx < 0 {
				s.x.Points = append(s.x.Points, p)
				s.fail(func(x *Exec) { x.SleepBlocked = true })
			}
		}
		p.Chosen = idx
		p.Label = enabled[idx].pending.label
		s.x.Points = append(s.x.Points, p)
	} else if past && s.UseSleep && s.sleep[enabled[0].id] {
		s.fail(func(x *Exec) { x.SleepBlocked = true })
	}
	if s.UseSleep && len(s.sleep) > 0 {
		nx := enabled[idx]
		delete(s.sleep, nx.id)
		if nx.pending.label != "start" {
			for id := range s.sleep {
				if t := s.threads[id]; t.pending == nil || t.pending.label != "start" {
					delete(s.sleep, id)
				}
			}
		}
	}
	next := enabled[idx]
	if s.KeepTrace {
		s.x.Trace = append(s.x.Trace, fmt.Sprintf("T%d:%s", next.id, next.pending.label))
	}
	if next == from {
		return
	}
	s.cur = next
	if !from.done {
		from.parked = true
	}
	next.parked = false
	next.wake <- struct{}{}
	if from.done {
		return
	}
	<-from.wake
	if s.aborting {
		panic(abortSentinel{})
	}
}

// Choose is a data (environment) choice point with n alternatives; alternative 0 is the default.
func Choose(n int, label string) int {
	s := active
	if s == nil || n <= 1 || s.aborting {
		return 0
	}
	k := len(s.x.Points)
	idx := 0
	if k < len(s.prefix) {
		idx = s.prefix[k]
		if idx < 0 || idx >= n {
			s.fail(func(x *Exec) { x.Divergence = fmt.Sprintf("data choice %d at point %d out of range %d", idx, k, n) })
		}
	}
	s.x.Points = append(s.x.Points, Point{Kind: DataChoice, N: n, Chosen: idx, Label: label})
	return idx
}

// Yield is an always-enabled scheduling point (file-system calls, lock system calls).
func Yield(label string) {
	s := active
	if s == nil {
		return
	}
	s.point(label, nil)
}

// Quiet runs f without offering the running thread's enabled scheduling points to the explorer: the
// thread keeps running through lock operations that are enabled and only yields where it must block.
// This is a partial-order reduction the harness may use ONLY for code whose transitions are
// independent of every other thread's (e.g. an iterator Next that pops an already fetched item).
func Quiet(f func()) {
	s := active
	if s == nil || s.aborting {
		f()
		return
	}
	t := s.cur
	t.quiet++
	defer func() { t.quiet-- }()
	f()
}

// ThreadID returns the id of the running scheduler thread (0 in pass-through mode).
func ThreadID() int {
	s := active
	if s == nil || s.cur == nil {
		return 0
	}
	return s.cur.id
}

// Go starts f as a new thread.
func Go(f func()) {
	s := active
	if s == nil {
		go f()
		return
	}
	if s.aborting {
		return
	}
	s.spawn(fmt.Sprintf("go%d", len(s.threads)), f, true)
}

func (s *Sched) spawn(name string, f func(), daemon bool) *thread {
	t := s.newThread(name, f, daemon)
	p := s.cur
	t.vc = p.vc.clone()
	t.vc[t.id] = 1
	p.vc[p.id]++
	return t
}

// Parallel runs the functions as concurrent threads and returns when all have finished.
func Parallel(fs ...func()) {
	s := active
	if s == nil {
		var wg sync.WaitGroup
		for _, f := range fs {
			wg.Add(1)
			f := f
			go func() { defer wg.Done(); f() }()
		}
		wg.Wait()
		return
	}
	if s.aborting {
		return
	}
	var ts []*thread
	for i, f := range fs {
		ts = append(ts, s.spawn(fmt.Sprintf("T%d", i+1), f, false))
	}
	s.point("join", func() bool {
		for _, t := range ts {
			if !t.done {
				return false
			}
		}
		return true
	})
	for _, t := range ts {
		s.cur.vc.join(t.vc)
	}
}

// LogicalTime returns the number of scheduling steps so far (a logical clock for call/return stamps).
func LogicalTime() int {
	s := active
	if s == nil {
		return 0
	}
	s.clock++
	return s.clock
}

// ---------------------------------------------------------------------------------------------
// happens-before bookkeeping

func (s *Sched) lvc(m interface{}) *lockVC {
	l := s.lockVCs[m]
	if l == nil {
		l = &lockVC{w: vclock{}, r: vclock{}}
		s.lockVCs[m] = l
	}
	return l
}

func (s *Sched) acquired(m interface{}, name string, write bool) {
	t := s.cur
	l := s.lvc(m)
	t.vc.join(l.w)
	if write {
		t.vc.join(l.r)
	}
	t.held = append(t.held, name)
}

func (s *Sched) released(m interface{}, name string, write bool) {
	t := s.cur
	l := s.lvc(m)
	if write {
		l.w.join(t.vc)
	} else {
		l.r.join(t.vc)
	}
	t.vc[t.id]++
	for i := len(t.held) - 1; i >= 0; i-- {
		if t.held[i] == name {
			t.held = append(t.held[:i], t.held[i+1:]...)
			break
		}
	}
}

// RecordAccess records an access to a shared object by the running thread and checks it against
// earlier accesses by other threads (happens-before race detection on the explored schedule).
func RecordAccess(obj string, write bool, lo, hi int64, label string) {
	s := active
	if s == nil || !s.TrackRaces || s.aborting {
		return
	}
	t := s.cur
	a := Access{Thread: t.id, Clock: t.vc[t.id], Obj: obj, Write: write, Lo: lo, Hi: hi, Label: label}
	for _, b := range s.accesses[obj] {
		if b.Thread == t.id || (!a.Write && !b.Write) {
			continue
		}
		if t.vc.covers(b.Thread, b.Clock) {
			continue
		}
		if a.Hi != 0 && b.Hi != 0 && (a.Hi <= b.Lo || b.Hi <= a.Lo) {
			continue
		}
		a.Held = append([]string(nil), t.held...)
		r := Race{A: b, B: a}
		if !s.raceKeys[r.Key()] {
			s.raceKeys[r.Key()] = true
			s.x.Races = append(s.x.Races, r)
		}
	}
	a.Held = append([]string(nil), t.held...)
	// keep the list short: drop older accesses of the same thread with the same kind and label
	lst := s.accesses[obj]
	if len(lst) > 64 {
		lst = lst[len(lst)-64:]
	}
	s.accesses[obj] = append(lst, a)
}

// ---------------------------------------------------------------------------------------------
// Mutex

// Mutex replaces sync.Mutex.
type Mutex struct {
	real    sync.Mutex
	epoch   uint64 // execution the scheduler state below belongs to (a package-level mutex outlives an execution)
	locked  bool
	user    int  // id+1 of the only thread that has used the mutex so far (0: none)
	shared  bool // more than one thread has used it
	skipped bool // a scheduling point was skipped because the mutex was thread-private (see Sched.PrivateQuiet)
}

// private reports whether the running thread is the only one that has ever used m, and records the use.
// With Sched.PrivateQuiet, operations on a thread-private mutex are not scheduling points (they are always
// enabled and commute with every transition of every other thread). If a second thread touches a mutex
// whose points were skipped, the assumption was wrong for this scenario: Exec.PrivateBroken is set and the
// explorer repeats the scenario without the reduction.
func (m *Mutex) private(s *Sched) bool {
	m.fresh(s)
	id := s.cur.id + 1
	if m.user == 0 {
		m.user = id
	}
	if m.user != id {
		m.shared = true
		if m.skipped {
			s.x.PrivateBroken = true
		}
	}
	if !s.PrivateQuiet || m.shared {
		return false
	}
	m.skipped = true
	return true
}

// fresh resets the bookkeeping of the thread-private reduction of a mutex that was last used in an earlier
// execution (thread ids mean nothing across executions). The lock state itself persists: a session makes every API
// call in an execution of its own, and a mutex left locked by one call must still be locked in the next.
func (m *Mutex) fresh(s *Sched) {
	if m.epoch != s.epoch {
		m.epoch, m.user, m.shared, m.skipped = s.epoch, 0, false, false
	}
}

func (m *Mutex) name() string { return lockName(m, "M") }

// Lock locks m.
func (m *Mutex) Lock() {
	s := active
	if s == nil {
		m.real.Lock()
		return
	}
	if s.aborting {
		return
	}
	if !(m.private(s) && !m.locked) {
		s.point("Mutex.Lock", func() bool { return !m.locked })
	}
	m.locked = true
	s.acquired(m, m.name(), true)
}

// TryLock tries to lock m.
func (m *Mutex) TryLock() bool {
	s := active
	if s == nil {
		return m.real.TryLock()
	}
	if s.aborting {
		return true
	}
	if !m.private(s) {
		s.point("Mutex.TryLock", nil)
	}
	if m.locked {
		return false
	}
	m.locked = true
	s.acquired(m, m.name(), true)
	return true
}

// Unlock unlocks m.
func (m *Mutex) Unlock() {
	s := active
	if s == nil {
		m.real.Unlock()
		return
	}
	if s.aborting {
		return
	}
	m.fresh(s)
	if !m.locked {
		panic("sync: unlock of unlocked mutex")
	}
	m.locked = false
	s.released(m, m.name(), true)
}

// ---------------------------------------------------------------------------------------------
// RWMutex

// RWMutex replaces sync.RWMutex, including Go's writer preference (a waiting writer blocks new readers).
type RWMutex struct {
	real     sync.RWMutex
	writer   bool
	pendingW bool
	readers  int
	rholders map[int]int
}

func (m *RWMutex) name() string { return lockName(m, "RW") }

// Lock locks m for writing.
func (m *RWMutex) Lock() {
	s := active
	if s == nil {
		m.real.Lock()
		return
	}
	if s.aborting {
		return
	}
	s.point("RWMutex.Lock", func() bool { return !m.writer && !m.pendingW })
	if m.readers > 0 {
		m.pendingW = true
		s.point("RWMutex.Lock(drain)", func() bool { return m.readers == 0 })
		m.pendingW = false
	}
	m.writer = true
	s.acquired(m, m.name(), true)
}

// TryLock tries to lock m for writing.
func (m *RWMutex) TryLock() bool {
	s := active
	if s == nil {
		return m.real.TryLock()
	}
	if s.aborting {
		return true
	}
	s.point("RWMutex.TryLock", nil)
	if m.writer || m.pendingW || m.readers > 0 {
		return false
	}
	m.writer = true
	s.acquired(m, m.name(), true)
	return true
}

// Unlock unlocks m for writing.
func (m *RWMutex) Unlock() {
	s := active
	if s == nil {
		m.real.Unlock()
		return
	}
	if s.aborting {
		return
	}
	if !m.writer {
		panic("sync: Unlock of unlocked RWMutex")
	}
	m.writer = false
	s.released(m, m.name(), true)
}

// RLock locks m for reading.
func (m *RWMutex) RLock() {
	s := active
	if s == nil {
		m.real.RLock()
		return
	}
	if s.aborting {
		return
	}
	s.point("RWMutex.RLock", func() bool { return !m.writer && !m.pendingW })
	m.readers++
	if m.rholders == nil {
		m.rholders = map[int]int{}
	}
	m.rholders[s.cur.id]++
	s.acquired(m, m.name()+"(r)", false)
}

// TryRLock tries to lock m for reading.
func (m *RWMutex) TryRLock() bool {
	s := active
	if s == nil {
		return m.real.TryRLock()
	}
	if s.aborting {
		return true
	}
	s.point("RWMutex.TryRLock", nil)
	if m.writer || m.pendingW {
		return false
	}
	m.readers++
	if m.rholders == nil {
		m.rholders = map[int]int{}
	}
	m.rholders[s.cur.id]++
	s.acquired(m, m.name()+"(r)", false)
	return true
}

// RUnlock undoes a single RLock call.
func (m *RWMutex) RUnlock() {
	s := active
	if s == nil {
		m.real.RUnlock()
		return
	}
	if s.aborting {
		return
	}
	if m.readers <= 0 {
		panic("sync: RUnlock of unlocked RWMutex")
	}
	m.readers--
	m.rholders[s.cur.id]--
	s.released(m, m.name()+"(r)", false)
}

// RLocker returns a Locker interface that implements Lock/Unlock via RLock/RUnlock.
func (m *RWMutex) RLocker() sync.Locker { return (*rlocker)(m) }

type rlocker RWMutex

func (r *rlocker) Lock()   { (*RWMutex)(r).RLock() }
func (r *rlocker) Unlock() { (*RWMutex)(r).RUnlock() }

// ---------------------------------------------------------------------------------------------
// WaitGroup

// WaitGroup replaces sync.WaitGroup.
type WaitGroup struct {
	real sync.WaitGroup
	n    int
	vc   vclock
}

// Add adds delta to the counter.
func (wg *WaitGroup) Add(delta int) {
	s := active
	if s == nil {
		wg.real.Add(delta)
		return
	}
	if s.aborting {
		return
	}
	wg.n += delta
	if wg.n < 0 {
		panic("sync: negative WaitGroup counter")
	}
	if delta < 0 {
		if wg.vc == nil {
			wg.vc = vclock{}
		}
		wg.vc.join(s.cur.vc)
		s.cur.vc[s.cur.id]++
	}
}

// Done decrements the counter.
func (wg *WaitGroup) Done() { wg.Add(-1) }

// Wait blocks until the counter is zero.
func (wg *WaitGroup) Wait() {
	s := active
	if s == nil {
		wg.real.Wait()
		return
	}
	if s.aborting {
		return
	}
	s.point("WaitGroup.Wait", func() bool { return wg.n == 0 })
	if wg.vc != nil {
		s.cur.vc.join(wg.vc)
	}
}

// ---------------------------------------------------------------------------------------------
// Select

var timeType = reflect.TypeOf(time.Time{})

// Select replaces a select statement whose cases are all receives whose values are discarded.
// It returns the index of the chosen channel. Under the scheduler a channel is ready when a
// non-blocking receive succeeds (closed, or a value is queued), or - for non-nil channels of
// time.Time, i.e. tickers - when the execution's tick budget is not exhausted ("a tick arrives now").
func Select(chans ...interface{}) int {
	s := active
	if s == nil {
		cases := make([]reflect.SelectCase, len(chans))
		for i, c := range chans {
			cases[i] = reflect.SelectCase{Dir: reflect.SelectRecv, Chan: reflect.ValueOf(c)}
		}
		i, _, _ := reflect.Select(cases)
		return i
	}
	if s.aborting {
		return 0
	}
	type alt struct {
		idx  int
		tick bool
	}
	var recvd = -1
	ready := func() []alt {
		var as []alt
		for i, c := range chans {
			v := reflect.ValueOf(c)
			if !v.IsValid() || v.Kind() != reflect.Chan || v.IsNil() {
				continue
			}
			if v.Type().Elem() == timeType {
				if s.TickBudget > 0 {
					as = append(as, alt{i, true})
				}
				continue
			}
			// Closed (nothing is consumed) or a value is queued (consumed: remembered in recvd).
			cases := []reflect.SelectCase{{Dir: reflect.SelectRecv, Chan: v}, {Dir: reflect.SelectDefault}}
			ci, _, ok := reflect.Select(cases)
			if ci == 0 {
				as = append(as, alt{i, false})
				if ok {
					recvd = i
				}
			}
		}
		return as
	}
	s.point("Select", func() bool { return len(ready()) > 0 })
	as := ready()
	if recvd >= 0 {
		// a value was consumed from an unbuffered sender; that alternative is the one taken
		return recvd
	}
	k := Choose(len(as), "select-alt")
	a := as[k]
	if a.tick {
		s.TickBudget--
	} else {
		// seeing a closed channel: conservatively ordered after everything that happened so far
		for _, t := range s.threads {
			s.cur.vc.join(t.vc)
		}
	}
	return a.idx
}

// ---------------------------------------------------------------------------------------------
// Explorer

// Explorer is a depth-first enumerator of executions (all alternatives at all choice points),
// optionally bounded by the number of preemptions.
type Explorer struct {
	Bound    int // maximal number of preemptions; <0 = unbounded
	Deadline time.Time
	MaxExecs int64
	Run      func(prefix []int, sleep []int) *Exec
	Check    func(x *Exec) bool // return false to stop the exploration

	Execs     int64
	Points    int64
	Skipped   int64 // alternatives not taken because of the preemption bound
	Blocked   int64 // executions abandoned by the sleep-set reduction
	Truncated bool  // a cap or deadline ended the search early
	Stopped   bool
	MaxDepth  int
}

// Explore enumerates all executions within the bound.
func (e *Explorer) Explore() {
	e.explore(nil, nil)
}

func (e *Explorer) explore(prefix []int, sleep []int) {
	if e.Stopped || e.Truncated {
		return
	}
	if (e.MaxExecs > 0 && e.Execs >= e.MaxExecs) || (!e.Deadline.IsZero() && time.Now().After(e.Deadline)) {
		e.Truncated = true
		return
	}
	x := e.Run(prefix, sleep)
	if x.SleepBlocked {
		e.Blocked++
	} else {
		e.Execs++
		e.Points += int64(len(x.Points))
		if len(x.Points) > e.MaxDepth {
			e.MaxDepth = len(x.Points)
		}
		if !e.Check(x) {
			e.Stopped = true
			return
		}
	}
	if x.Divergence != "" {
		return
	}
	cost := 0
	for i := 0; i < len(x.Points); i++ {
		p := x.Points[i]
		if i >= len(prefix) {
			// threads asleep at this point, plus the default choice and the alternatives already explored
			var asleep []int
			if p.Kind == ThreadChoice && p.Asleep != nil {
				for j, a := range p.Asleep {
					if a {
						asleep = append(asleep, p.Enabled[j])
					}
				}
				if p.Chosen >= 0 && p.Chosen < len(p.Enabled) {
					asleep = append(asleep, p.Enabled[p.Chosen])
				}
			}
			for alt := 0; alt < p.N; alt++ {
				if alt == p.Chosen {
					continue
				}
				if p.Kind == ThreadChoice && p.Asleep != nil && p.Asleep[alt] {
					continue
				}
				if p.Kind == DataChoice && alt < p.Chosen {
					continue
				}
				c := cost
				if p.Kind == ThreadChoice && p.RunningEnabled && alt != 0 {
					c++
				}
				if e.Bound >= 0 && c > e.Bound {
					e.Skipped++
					continue
				}
				np := make([]int, i+1)
				copy(np, x.Choices[:i])
				np[i] = alt
				var sl []int
				if p.Kind == ThreadChoice && p.Asleep != nil {
					sl = append([]int(nil), asleep...)
					asleep = append(asleep, p.Enabled[alt])
				}
				e.explore(np, sl)
				if e.Stopped || e.Truncated {
					return
				}
			}
		}
		if p.Kind == ThreadChoice && p.RunningEnabled && p.Chosen != 0 {
			cost++
		}
	}
}

// SortedKeys is a helper for deterministic iteration.
func SortedKeys(m map[string]bool) []string {
	var ks []string
	for k := range m {
		ks = append(ks, k)
	}
	sort.Strings(ks)
	return ks
}
