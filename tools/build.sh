#!/bin/bash
# Regenerates the overlay from /repo's current working tree and builds /verif/bin/pogverif
# (and, with argument "race", /verif/bin/pogverif-race). Nothing in /repo is modified.
set -e
export GOFLAGS=-mod=mod GOPROXY=off GOSUMDB=off GOTOOLCHAIN=local
VERIF=${VERIF_DIR:-/verif}
REPO=${VERIF_REPO:-/repo}
mkdir -p "$VERIF/bin"
SCR=$(mktemp -d /dev/shm/pogverif-build.XXXXXX 2>/dev/null || mktemp -d)
trap 'rm -rf "$SCR"' EXIT
if [ ! -x "$VERIF/bin/instrument" ] || [ "$VERIF/tools/instrument/main.go" -nt "$VERIF/bin/instrument" ]; then
  (cd "$VERIF/tools/instrument" && GOFLAGS= go build -o "$SCR/instrument" main.go && mv "$SCR/instrument" "$VERIF/bin/instrument")
fi
"$VERIF/bin/instrument" -repo "$REPO" -harness "$VERIF/harness" -out "$SCR"
OUT=pogverif; RACE=
if [ "$1" = "race" ]; then OUT=pogverif-race; RACE=-race; fi
(cd "$REPO" && go build $RACE -tags verif -overlay "$SCR/overlay.json" -o "$SCR/$OUT" ./zzverif/cmd/pogverif)
mv "$SCR/$OUT" "$VERIF/bin/$OUT"
cp "$SCR/instrument_report.json" "$VERIF/bin/instrument_report.json"
