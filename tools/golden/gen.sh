#!/bin/bash
# Regenerates /verif/golden from the PINNED commit of akrylysov/pogreb (the commit the task started from).
# Run once; the result is committed. Not used by any check.
set -e
export GOFLAGS=-mod=mod GOPROXY=off GOSUMDB=off GOTOOLCHAIN=local
PINNED=${1:-0e387fd}
WT=$(mktemp -d /tmp/golden-wt.XXXXXX); rmdir "$WT"
trap 'git -C /repo worktree remove --force "$WT" >/dev/null 2>&1; rm -rf "$WT"' EXIT
git -C /repo worktree add -q --detach "$WT" "$PINNED"
cp /verif/tools/golden/zz_golden_gen_test.go "$WT/"
rm -rf /verif/golden; mkdir -p /verif/golden
(cd "$WT" && GOLDEN_OUT=/verif/golden go test -vet=off -count=1 -run '^TestGenGolden$' . )
echo "$PINNED" > /verif/golden/PINNED_COMMIT
du -sh /verif/golden; ls /verif/golden
