package pogreb

// Generator of the golden corpus of C18. It is copied into a scratch worktree of the PINNED commit
// (tools/golden/gen.sh) and run there once; the directories it writes are committed under
// /verif/golden. It is not part of any check.

import (
	"crypto/sha256"
	"encoding/hex"
	"encoding/json"
	"fmt"
	"os"
	"path/filepath"
	"testing"

	"github.com/akrylysov/pogreb/fs"
)

type goldenEntry struct {
	Clean    bool              `json:"clean"`
	Note     string            `json:"note"`
	Contents map[string]string `json:"contents"` // hex(key) -> sha256(value) hex
	Count    int               `json:"count"`
}

func sha(v []byte) string { s := sha256.Sum256(v); return hex.EncodeToString(s[:]) }

func TestGenGolden(t *testing.T) {
	out := os.Getenv("GOLDEN_OUT")
	if out == "" {
		t.Skip("GOLDEN_OUT not set")
	}
	manifest := map[string]*goldenEntry{}
	type script func(db *DB, m map[string][]byte) error
	put := func(db *DB, m map[string][]byte, k, v []byte) error {
		m[string(k)] = append([]byte(nil), v...)
		return db.Put(k, v)
	}
	del := func(db *DB, m map[string][]byte, k []byte) error {
		delete(m, string(k))
		return db.Delete(k)
	}
	gen := func(name, note string, fsys fs.FileSystem, opts Options, clean bool, tail []byte, sessions ...script) {
		dir := filepath.Join(out, name)
		_ = os.RemoveAll(dir)
		m := map[string][]byte{}
		var db *DB
		for i, s := range sessions {
			o := opts
			o.FileSystem = fsys
			var err error
			db, err = Open(dir, &o)
			if err != nil {
				t.Fatalf("%s: open: %v", name, err)
			}
			if err := s(db, m); err != nil {
				t.Fatalf("%s: session %d: %v", name, i, err)
			}
			// the pinned version itself must agree with the model here (histories that trip over its own
			// known defects would make a meaningless corpus entry)
			if int(db.Count()) != len(m) {
				t.Fatalf("%s: pinned version reports Count=%d for %d keys: pick another history", name, db.Count(), len(m))
			}
			it := db.Items()
			seen := 0
			for {
				k, v, err := it.Next()
				if err == ErrIterationDone {
					break
				}
				if err != nil {
					t.Fatal(err)
				}
				if string(m[string(k)]) != string(v) {
					t.Fatalf("%s: pinned version returns a wrong value", name)
				}
				seen++
			}
			if seen != len(m) {
				t.Fatalf("%s: pinned version scans %d pairs for %d keys", name, seen, len(m))
			}
			if i < len(sessions)-1 || clean {
				if err := db.Close(); err != nil {
					t.Fatalf("%s: close: %v", name, err)
				}
			}
		}
		if !clean {
			// unclean: flush what the OS has, then abandon the handle (lock file stays); optional torn tail
			if err := db.Sync(); err != nil {
				t.Fatal(err)
			}
			if tail != nil {
				segs := db.datalog.segmentsBySequenceID()
				last := segs[len(segs)-1]
				f, err := os.OpenFile(filepath.Join(dir, last.name), os.O_WRONLY|os.O_APPEND, 0640)
				if err != nil {
					t.Fatal(err)
				}
				if _, err := f.Write(tail); err != nil {
					t.Fatal(err)
				}
				_ = f.Close()
			}
		}
		e := &goldenEntry{Clean: clean, Note: note, Contents: map[string]string{}, Count: len(m)}
		for k, v := range m {
			e.Contents[hex.EncodeToString([]byte(k))] = sha(v)
		}
		manifest[name] = e
	}
	small := Options{BackgroundSyncInterval: -1}
	roll := Options{BackgroundSyncInterval: -1, maxSegmentSize: 1024, compactionMinSegmentSize: 520, compactionMinFragmentation: 0.4}
	key := func(i int) []byte { return []byte(fmt.Sprintf("key-%05d", i)) }
	val := func(i, gen int) []byte { return []byte(fmt.Sprintf("value-%05d-%d", i, gen)) }

	gen("empty", "opened and closed, no keys", fs.OS, small, true, nil, func(db *DB, m map[string][]byte) error { return nil })
	gen("onekey", "a single key", fs.OS, small, true, nil, func(db *DB, m map[string][]byte) error { return put(db, m, []byte("k"), []byte("v")) })
	gen("suite255", "255 one-byte keys (the shape the test suite uses)", fs.OSMMap, small, true, nil, func(db *DB, m map[string][]byte) error {
		for i := 0; i < 255; i++ {
			if err := put(db, m, []byte{byte(i)}, []byte{byte(i)}); err != nil {
				return err
			}
		}
		return nil
	})
	grow := func(n int) script {
		return func(db *DB, m map[string][]byte) error {
			for i := 0; i < n; i++ {
				if err := put(db, m, key(i), val(i, 0)); err != nil {
					return err
				}
			}
			return nil
		}
	}
	gen("grow3000", "3000 keys: several index levels, mid-level split pointer, overflow chains, free overflow buckets", fs.OS, small, true, nil, grow(3000))
	gen("grow3000-unclean", "as grow3000, not closed", fs.OS, small, false, nil, grow(3000))
	gen("grow700-mmap", "700 keys written through the memory-mapped file system", fs.OSMMap, small, true, nil, grow(700))
	// Deletes come last in every history: the pinned version has a known defect when a key is inserted or
	// overwritten after a delete opened a hole earlier in its bucket chain (C01 in known_findings.json); a
	// history that trips over it would make a meaningless corpus entry (the generator checks this).
	churn := func(db *DB, m map[string][]byte) error {
		for i := 0; i < 400; i++ {
			if err := put(db, m, key(i), val(i, 0)); err != nil {
				return err
			}
		}
		for i := 1; i < 400; i += 3 {
			if err := put(db, m, key(i), val(i, 1)); err != nil {
				return err
			}
		}
		return nil
	}
	more := func(db *DB, m map[string][]byte) error {
		for i := 400; i < 450; i++ {
			if err := put(db, m, key(i), val(i, 0)); err != nil {
				return err
			}
		}
		for i := 0; i < 450; i += 3 {
			if err := del(db, m, key(i)); err != nil {
				return err
			}
		}
		return nil
	}
	gen("rolled", "1 KiB segments: rolled-over log with overwritten and deleted records and delete records, two sessions", fs.OS, roll, true, nil, churn, more)
	gen("rolled-unclean-torn", "as rolled, second session not closed and a torn record (header + half a key) at the tail of the newest segment", fs.OS, roll, false, []byte{9, 0, 20, 0, 0, 0, 'k', 'e', 'y', '-'}, churn, more)
	compacted := func(db *DB, m map[string][]byte) error {
		for i := 0; i < 400; i++ {
			if err := put(db, m, key(i), val(i, 0)); err != nil {
				return err
			}
		}
		// overwrite the keys of the oldest segments only: those segments become garbage, the later ones stay intact
		for i := 0; i < 100; i++ {
			if err := put(db, m, key(i), val(i, 1)); err != nil {
				return err
			}
		}
		cr, err := db.Compact()
		if err != nil {
			return err
		}
		if cr.CompactedSegments == 0 {
			return fmt.Errorf("nothing compacted")
		}
		// segment ids freed by the compaction are reused by the following writes: sequence ids are now out of id order
		for i := 500; i < 560; i++ {
			if err := put(db, m, key(i), val(i, 0)); err != nil {
				return err
			}
		}
		for i := 2; i < 100; i += 3 {
			if err := del(db, m, key(i)); err != nil {
				return err
			}
		}
		inOrder := true
		segs := db.datalog.segmentsBySequenceID()
		for i := 1; i < len(segs); i++ {
			if segs[i].id < segs[i-1].id {
				inOrder = false
			}
		}
		if inOrder {
			return fmt.Errorf("segment ids are still in sequence order, the corpus entry would be pointless")
		}
		return nil
	}
	gen("compacted", "after a compaction, with reused segment ids (sequence ids out of id order) and later deletes", fs.OS, roll, true, nil, compacted)
	gen("compacted-unclean", "as compacted, not closed: recovery must replay in sequence-id order", fs.OS, roll, false, nil, compacted)
	sizes := func(db *DB, m map[string][]byte) error {
		big := make([]byte, 65535)
		for i := range big {
			big[i] = byte(i * 31)
		}
		val64k := make([]byte, 65536)
		for i := range val64k {
			val64k[i] = byte(i * 7)
		}
		if err := put(db, m, []byte{}, []byte("value of the empty key")); err != nil {
			return err
		}
		if err := put(db, m, []byte("empty-value"), []byte{}); err != nil {
			return err
		}
		if err := put(db, m, big, []byte("value of the 65535-byte key")); err != nil {
			return err
		}
		if err := put(db, m, []byte("big-value"), val64k); err != nil {
			return err
		}
		return put(db, m, []byte("after"), []byte("x"))
	}
	gen("sizes", "zero-length key, zero-length value, 65535-byte key, 64 KiB value", fs.OS, small, true, nil, sizes)
	gen("sizes-unclean", "as sizes, not closed", fs.OSMMap, small, false, nil, sizes)
	gen("emptyempty-unclean", "the empty key with an empty value (a valid record whose 6-byte header is all zero) followed by further records, not closed", fs.OS, small, false, nil, func(db *DB, m map[string][]byte) error {
		if err := put(db, m, []byte("first"), []byte("1")); err != nil {
			return err
		}
		if err := put(db, m, []byte{}, []byte{}); err != nil {
			return err
		}
		for i := 0; i < 5; i++ {
			if err := put(db, m, key(i), val(i, 0)); err != nil {
				return err
			}
		}
		return put(db, m, []byte("first"), []byte("2"))
	})
	gen("emptied", "all keys deleted again, then closed and reopened once (fresh hash seed drawn), then three keys", fs.OS, small, true, nil,
		func(db *DB, m map[string][]byte) error {
			for i := 0; i < 50; i++ {
				if err := put(db, m, key(i), val(i, 0)); err != nil {
					return err
				}
			}
			for i := 0; i < 50; i++ {
				if err := del(db, m, key(i)); err != nil {
					return err
				}
			}
			return nil
		},
		func(db *DB, m map[string][]byte) error {
			for i := 0; i < 3; i++ {
				if err := put(db, m, key(i), val(i, 5)); err != nil {
					return err
				}
			}
			return nil
		})
	data, _ := json.MarshalIndent(manifest, "", " ")
	if err := os.WriteFile(filepath.Join(out, "manifest.json"), data, 0644); err != nil {
		t.Fatal(err)
	}
}
