// Command instrument produces a `go build -overlay` description that
//   - maps the harness sources under /verif/harness into the pogreb module as
//     github.com/akrylysov/pogreb/zzverif/...
//   - replaces, in copies of the non-test sources of packages pogreb and pogreb/fs taken from the
//     *current working tree*, the import of "sync" by the vsync shim, `go f()` statements by
//     vsync.Go and receive-only `select` statements by a switch over vsync.Select.
//
// Nothing in the repository is modified. Shapes the tool cannot translate are left alone and
// reported in the JSON report (never a build failure).
package main

import (
	"bytes"
	"encoding/json"
	"flag"
	"fmt"
	"go/ast"
	"go/format"
	"go/parser"
	"go/token"
	"os"
	"path/filepath"
	"strconv"
	"strings"
)

const vsyncPath = "github.com/akrylysov/pogreb/zzverif/vsync"

var supported = map[string]bool{"Mutex": true, "RWMutex": true, "WaitGroup": true, "Locker": false}

type report struct {
	SyncRewritten   []string `json:"sync_rewritten"`
	SyncUnsupported []string `json:"sync_unsupported"`
	GoRewritten     int      `json:"go_rewritten"`
	GoLeft          int      `json:"go_left"`
	SelectRewritten int      `json:"select_rewritten"`
	SelectLeft      int      `json:"select_left"`
	WorkerModelled  bool     `json:"worker_modelled"`
}

func main() {
	repo := flag.String("repo", "/repo", "repository root")
	harness := flag.String("harness", "/verif/harness", "harness sources")
	out := flag.String("out", "", "scratch directory for rewritten copies and overlay.json")
	flag.Parse()
	if *out == "" {
		fmt.Fprintln(os.Stderr, "instrument: -out required")
		os.Exit(2)
	}
	replace := map[string]string{}
	rep := &report{}

	// 1. harness sources -> virtual packages
	err := filepath.Walk(*harness, func(p string, info os.FileInfo, err error) error {
		if err != nil {
			return err
		}
		if info.IsDir() || !strings.HasSuffix(p, ".go") {
			return nil
		}
		rel, _ := filepath.Rel(*harness, p)
		replace[filepath.Join(*repo, "zzverif", rel)] = p
		return nil
	})
	if err != nil {
		fatal(err)
	}

	// 2. rewritten copies of package pogreb and pogreb/fs
	for _, dir := range []string{".", "fs"} {
		ents, err := os.ReadDir(filepath.Join(*repo, dir))
		if err != nil {
			fatal(err)
		}
		for _, e := range ents {
			name := e.Name()
			if e.IsDir() || !strings.HasSuffix(name, ".go") || strings.HasSuffix(name, "_test.go") {
				continue
			}
			src := filepath.Join(*repo, dir, name)
			data, changed, err := rewrite(src, rep)
			if err != nil {
				// unparsable file: leave it to the compiler
				continue
			}
			if !changed {
				continue
			}
			dst := filepath.Join(*out, "rw", dir, name)
			if err := os.MkdirAll(filepath.Dir(dst), 0755); err != nil {
				fatal(err)
			}
			if err := os.WriteFile(dst, data, 0644); err != nil {
				fatal(err)
			}
			replace[src] = dst
		}
	}
	rep.WorkerModelled = rep.GoLeft == 0 && rep.SelectLeft == 0 && len(rep.SyncUnsupported) == 0

	ov, _ := json.MarshalIndent(map[string]interface{}{"Replace": replace}, "", " ")
	if err := os.WriteFile(filepath.Join(*out, "overlay.json"), ov, 0644); err != nil {
		fatal(err)
	}
	rj, _ := json.MarshalIndent(rep, "", " ")
	if err := os.WriteFile(filepath.Join(*out, "instrument_report.json"), rj, 0644); err != nil {
		fatal(err)
	}
}

func fatal(err error) {
	fmt.Fprintln(os.Stderr, "instrument:", err)
	os.Exit(2)
}

func rewrite(path string, rep *report) ([]byte, bool, error) {
	fset := token.NewFileSet()
	f, err := parser.ParseFile(fset, path, nil, parser.ParseComments)
	if err != nil {
		return nil, false, err
	}
	changed := false

	// --- sync import
	var syncSpec *ast.ImportSpec
	for _, is := range f.Imports {
		if p, _ := strconv.Unquote(is.Path.Value); p == "sync" {
			syncSpec = is
		}
	}
	if syncSpec != nil {
		local := "sync"
		if syncSpec.Name != nil {
			local = syncSpec.Name.Name
		}
		ok := local != "_" && local != "."
		ast.Inspect(f, func(n ast.Node) bool {
			if se, is := n.(*ast.SelectorExpr); is {
				if id, is := se.X.(*ast.Ident); is && id.Name == local && id.Obj == nil {
					if !supported[se.Sel.Name] {
						ok = false
					}
				}
			}
			return true
		})
		if ok {
			syncSpec.Path.Value = strconv.Quote(vsyncPath)
			syncSpec.Name = ast.NewIdent(local)
			rep.SyncRewritten = append(rep.SyncRewritten, path)
			changed = true
		} else {
			rep.SyncUnsupported = append(rep.SyncUnsupported, path)
		}
	}

	// --- go statements and select statements
	needImport := false
	var rewriteStmts func(list []ast.Stmt)
	rewriteStmt := func(s ast.Stmt) ast.Stmt {
		switch st := s.(type) {
		case *ast.GoStmt:
			if len(st.Call.Args) == 0 {
				if _, isLit := st.Call.Fun.(*ast.FuncLit); isLit || isSimpleFun(st.Call.Fun) {
					rep.GoRewritten++
					needImport = true
					body := &ast.BlockStmt{List: []ast.Stmt{&ast.ExprStmt{X: st.Call}}}
					return &ast.ExprStmt{X: &ast.CallExpr{
						Fun:  &ast.SelectorExpr{X: ast.NewIdent("zzvsync"), Sel: ast.NewIdent("Go")},
						Args: []ast.Expr{&ast.FuncLit{Type: &ast.FuncType{Params: &ast.FieldList{}}, Body: body}},
					}}
				}
			}
			rep.GoLeft++
		case *ast.SelectStmt:
			var chans []ast.Expr
			good := true
			for _, c := range st.Body.List {
				cc := c.(*ast.CommClause)
				es, isExpr := cc.Comm.(*ast.ExprStmt)
				if cc.Comm == nil || !isExpr {
					good = false
					break
				}
				ue, isUnary := es.X.(*ast.UnaryExpr)
				if !isUnary || ue.Op != token.ARROW {
					good = false
					break
				}
				chans = append(chans, ue.X)
			}
			if good && len(chans) > 0 {
				rep.SelectRewritten++
				needImport = true
				sw := &ast.SwitchStmt{
					Tag: &ast.CallExpr{
						Fun:  &ast.SelectorExpr{X: ast.NewIdent("zzvsync"), Sel: ast.NewIdent("Select")},
						Args: chans,
					},
					Body: &ast.BlockStmt{},
				}
				for i, c := range st.Body.List {
					cc := c.(*ast.CommClause)
					sw.Body.List = append(sw.Body.List, &ast.CaseClause{
						List: []ast.Expr{&ast.BasicLit{Kind: token.INT, Value: strconv.Itoa(i)}},
						Body: cc.Body,
					})
				}
				return sw
			}
			rep.SelectLeft++
		}
		return s
	}
	rewriteStmts = func(list []ast.Stmt) {
		for i, s := range list {
			list[i] = rewriteStmt(s)
		}
	}
	ast.Inspect(f, func(n ast.Node) bool {
		switch b := n.(type) {
		case *ast.BlockStmt:
			rewriteStmts(b.List)
		case *ast.CaseClause:
			rewriteStmts(b.Body)
		case *ast.CommClause:
			rewriteStmts(b.Body)
		case *ast.LabeledStmt:
			b.Stmt = rewriteStmt(b.Stmt)
		}
		return true
	})
	if needImport {
		changed = true
		spec := &ast.ImportSpec{Name: ast.NewIdent("zzvsync"), Path: &ast.BasicLit{Kind: token.STRING, Value: strconv.Quote(vsyncPath)}}
		added := false
		for _, d := range f.Decls {
			if gd, ok := d.(*ast.GenDecl); ok && gd.Tok == token.IMPORT {
				gd.Specs = append(gd.Specs, spec)
				if !gd.Lparen.IsValid() {
					gd.Lparen = gd.Pos()
					gd.Rparen = gd.End()
				}
				added = true
				break
			}
		}
		if !added {
			gd := &ast.GenDecl{Tok: token.IMPORT, Specs: []ast.Spec{spec}}
			f.Decls = append([]ast.Decl{gd}, f.Decls...)
		}
	}
	if !changed {
		return nil, false, nil
	}
	var buf bytes.Buffer
	if err := format.Node(&buf, fset, f); err != nil {
		return nil, false, err
	}
	return buf.Bytes(), true, nil
}

func isSimpleFun(e ast.Expr) bool {
	switch x := e.(type) {
	case *ast.Ident:
		return true
	case *ast.SelectorExpr:
		return isSimpleFun(x.X)
	}
	return false
}
