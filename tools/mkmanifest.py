#!/usr/bin/env python3
"""Regenerates /verif/MANIFEST.json from the table below (kept next to the checks so that the
manifest stays valid and current as checks are added)."""
import json, subprocess
props=[json.loads(l) for l in open('/verif/properties.jsonl')]
hooks_commits=subprocess.run(['git','-C','/repo','log','--format=%h','--reverse','--grep=^verif hooks'],capture_output=True,text=True).stdout.split()
C={
 "C18":("exploration","complete enumeration of a committed golden corpus written by the pinned commit (read side) + bounded exhaustive history enumeration with an independent reader of the documented format for segments, index files and metadata (write side)",
        "finite corpus (14 directories) generated once from the pinned commit; gob metadata pinned by field names and by the corpus"),
 "C16":("exploration","exhaustive enumeration of a boundary alphabet of key/value lengths x record positions x segment capacities with byte-exact round-trip oracles (now / after recovery / after restart / after deleting the key again and a second recovery), and of over-long probes with forged hash collisions and shared prefixes with atomic-rejection oracles",
        "boundary alphabet, not the full 2^16 x 2^29 range; listed in the evidence rule"),
 "C14":("model_checking","bounded exhaustive operation-sequence enumeration after a fixed set of reads, on a harness file system in mmap-lifetime mode (memory handed out by File.Slice poisoned on every write/truncate/close) and on the real fs.OSMMap/fs.OS with faults turned into panics; returned-slice-stability and input-slice-independence oracles",
        "depth bound as reported; simfs poison mode models the strictest FileSystem the interface allows"),
 "C17":("model_checking","bounded exhaustive program enumeration (all words <= d over writes/deletes/compaction/restart/backup/torn-tail restarts/large records) executed on simfs, fs.Mem, fs.OS and fs.OSMMap with a four-way differential oracle on per-call results and segment bytes + exhaustive interleaving exploration (controlled scheduler, every file-system call a scheduling point) of 2-3 reader/writer threads on simfs with every schedule replayed on the other three file systems (same calls, results, contents)",
        "depth bound as reported; error texts not compared; hash seed pinned"),
 "C13":("model_checking","exhaustive interleaving exploration of the REAL lock system calls (stat/open/flock/unlink/close of fs.OS on a scratch directory, yield hooks as scheduling points, unbounded preemptions) for 2-3 openers/closers/dying holders + bounded exhaustive Open/Close/Kill/Put words on fs.OS, fs.OSMMap, fs.Mem; holder-count, acquiredExisting and failed-Open-changes-nothing oracles",
        "flock semantics of the running kernel; process death = closing the descriptor without unlinking; one known finding (creation race between two first-time openers: unnecessary recovery) is listed in known_findings.json"),
 "C10":("model_checking","exhaustive interleaving exploration (controlled scheduler; lock operations and, for FileSize/Backup, file-system calls as scheduling points) of all public-method pairs, Close triples, shared iterators, maintenance tasks, the background worker, and readers/writer directly on fs.OS and fs.OSMMap with every file-system call a scheduling point; panic/deadlock/handle-state-race/live-goroutine/use-after-Close oracles; complemented by a free-running Go race detector pass",
        "data races on in-memory fields are visible only to the free-running race-detector complement (sampling, labelled); larger scenarios completed up to the reported preemption bound"),
 "C12":("model_checking","exhaustive interleaving exploration (controlled scheduler; scheduling points at every lock operation and every file-system call on segment files/directory) of Backup against 1-2 writer threads/Compact with log rollover; opened backup must equal a prefix state between call and return",
        "writer programs <= 2 ops (3 thorough); index/meta file calls are not scheduling points; larger scenarios are completed up to the reported preemption bound"),
 "C11":("model_checking","exhaustive interleaving exploration (controlled scheduler, all lock hand-offs) of a full scan against 1-2 writer threads incl. index splits and Compact + bounded exhaustive operation-sequence enumeration for the quiescent clauses; truthful/complete/exactly-once oracles",
        "writer programs <= 2 ops; iterator Next calls that only pop an already fetched item are not scheduling points (argued partial-order reduction, DESIGN.md C11); depth bound for the quiescent part as reported"),
 "C05":("model_checking","exhaustive interleaving exploration (controlled scheduler over a sync shim, all lock hand-offs) of Compact with concurrent writers/readers x exhaustive process-crash image enumeration of every interleaved execution; WGL linearizability + acked-state oracles",
        "2-3 threads, writer programs <= 2 ops; scheduling points at sync operations; process-crash model of C03; time-sliced scenarios report the completed preemption bound"),
 "C07":("model_checking","exhaustive interleaving exploration (controlled scheduler over a sync shim, unbounded preemptions) of 3-4 thread workloads on colliding keys; every history checked by a Wing-Gong-Lowe linearizability search against the map model",
        "3-4 threads with <= 2 ops each; scheduling points at sync operations (accesses outside critical sections are the business of C10's race pass)"),
 "C06":("fault_enumeration","exhaustive power-loss image enumeration: every failure instant x every admissible combination of per-file surviving write prefixes (512-byte tears) of every history word <= d, both sync modes; per-key durability oracle","power-loss model as stated in the property; bounded history depth; cap 4096 images per instant (reported when it binds)"),
 "C09":("fault_enumeration","exhaustive power-loss image enumeration over every instant from the return of Close to the end of the next Open x full product of per-file surviving prefixes over all files; exact-contents oracle","power-loss model as stated in the property; bounded history depth"),
 "C01":("model_checking","bounded exhaustive operation-sequence enumeration (explicit-state search on the implementation) against a reference map + structural index invariant",
        "all words <= depth d over 16 letters from 6 engineered index states x 3 segment configs, every step checked; bounded depth/alphabet, simfs file system"),
 "C02":("model_checking","bounded exhaustive enumeration of operation sequences with Close/Open at every position; reference map, op-log 'no recovery ran' oracle, independent decoder replay",
        "same space as C01 plus the Reopen letter; sessions on simfs (OS/OSMMap alternation is part of C17)"),
 "C03":("fault_enumeration","exhaustive process-crash image enumeration: every FS-call boundary and every 512-aligned torn write of the last operation of every history word <= d (two alphabets: equal-sized records; records of two sizes, one larger than a whole segment), each image recovered by the real Open",
        "process-crash model as stated in the property; bounded history depth"),
 "C04":("fault_enumeration","exhaustive enumeration of epoch chains (history, crash image) x (history, crash image), including every crash point inside the recovering Open; cumulative acknowledged-state oracle",
        "process-crash model; chain length 2 (quick) / 3 (thorough); bounded word depth per epoch"),
 "C08":("fault_enumeration","exhaustive enumeration of truncations, single-bit flips and a garbage-tail alphabet on segment tails; oracle = independent decoder written from docs/design.md",
        "record shapes and garbage alphabet as listed in the evidence rule; independent decoder is the trusted definition of the valid prefix"),
 "C15":("model_checking","bounded exhaustive enumeration of write/compact/restart sequences and cyclic workloads with directory, handle-count and usability oracles",
        "words <= depth d over 5 letters; cyclic workloads up to length 3/4 repeated 16x (lasso / no-growth criterion)"),
 "C19":("fault_enumeration","exhaustive enumeration of a boundary alphabet of garbage record headers; oracle on largest read request and bytes allocated during the recovering Open",
        "boundary alphabet of the two length fields (contains both maxima), not all 2^48 headers"),
}
claimed=sorted(C)
m={
 "version":1,
 "setup_cmd":"tools/build.sh && tools/build.sh race",
 "hooks":{"guard":"verif",
   "enable":"tools/build.sh: go build -tags verif -overlay <generated>; verif-tagged files in /repo (verif_export.go, internal/hash/seed_verif_on.go, fs/verif_on.go) plus an overlay that maps /verif/harness into the module as zzverif/... and swaps the sync import of copies of the pogreb sources for the scheduler shim",
   "baseline_off_cmd":"cd /repo && GOFLAGS=-mod=mod GOPROXY=off GOSUMDB=off GOTOOLCHAIN=local go test -vet=off -count=1 ./...",
   "source_commits":hooks_commits,"add_only":True},
 "engines":[{"name":"pogverif","path":"harness/cmd/pogverif","serves_properties":claimed,
   "kind_free_text":"hand-written stateless explorer on the real implementation: sequence enumerator from engineered base states, process-crash / power-loss image enumerators over a logging file system (simfs), cooperative scheduler + DFS over a sync shim (vsync), independent format decoder, map model"}],
 "checks":[], "not_applicable":[],
 "notes":"Every check rebuilds the harness against /repo's working tree (check.sh -> tools/build.sh). Known and fixed findings: known_findings.json. Design: DESIGN.md."
}
for p in claimed:
    lvl,tech,note=C[p]
    m["checks"].append({"property_id":p,"quick_cmd":"./check.sh %s quick"%p,"thorough_cmd":"./check.sh %s thorough"%p,
      "evidence_file":"evidence/%s.json"%p,"replay_cmd_template":"bin/pogverif replay {path}","engine":"pogverif",
      "level_claimed":{"category":lvl,"text":tech,"design_ref":"DESIGN.md section 3, "+p},"level_note":note,"technique":tech})
for p in props:
    if p['id'] not in C:
        m["not_applicable"].append({"property_id":p['id'],"reason":"no check registered"})
json.dump(m,open('/verif/MANIFEST.json','w'),indent=1)
print("claimed:",claimed)
