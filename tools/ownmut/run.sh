#!/bin/bash
# Runs the own deliberate property-breaking changes (tools/ownmut/<Cxx>-<name>.diff) through
# tools/seedeval.sh: the existing suite must still pass with the change; the quick check of the
# property named by the file must report a violation. usage: tools/ownmut/run.sh [pattern]
cd /verif
for d in tools/ownmut/${1:-C}*.diff; do
  n=$(basename $d .diff); p=${n%%-*}
  T=$(mktemp -d /dev/shm/ownmut.XXXXXX); cp $d $T/patch.diff
  out=$(tools/seedeval.sh $T x '^$' $p 2>&1); rm -rf $T
  suite=$(echo "$out" | grep -c "suite-with-change: pass")
  chk=$(echo "$out" | grep "^CHECK" | head -1)
  echo "$n: suite_pass=$suite $chk"
done
