#!/usr/bin/env python3
"""Imports seeded changes produced by sub-agents (/tmp/wt-<P>/_seed/mN) into /verif/seeded/<P>-mN/,
confirms each in a scratch worktree (tools/seedeval.sh) and runs the quick check of its property
(and, if that misses, of every other claimed property) against the changed tree.
usage: seedall.py [--only C06-m2] [--recheck]  (recheck: re-run checks for seeds already imported)"""
import json, os, re, shutil, subprocess, sys, glob, time

VERIF = '/verif'
claimed = [c['property_id'] for c in json.load(open(f'{VERIF}/MANIFEST.json'))['checks']]
only = None
recheck = '--recheck' in sys.argv
allprops = '--all' in sys.argv
ownonly = '--own-only' in sys.argv  # do not run the other properties' checks when the own one misses
if '--only' in sys.argv:
    only = sys.argv[sys.argv.index('--only') + 1]

def demo_info(path):
    src = open(path).read()
    pkg = re.search(r'^package (\w+)', src, re.M).group(1)
    tests = re.findall(r'^func (Test\w+)\(', src, re.M)
    dest = 'fs/zz_seed_demo_test.go' if pkg in ('fs', 'fs_test') else 'zz_seed_demo_test.go'
    return dest, '^(' + '|'.join(tests) + ')$'

def run_eval(sd, dest, run, props, skip_confirm=False):
    env = dict(os.environ)
    if skip_confirm:
        env['SEED_SKIP_CONFIRM'] = '1'
    p = subprocess.run([f'{VERIF}/tools/seedeval.sh', sd, dest, run] + props, capture_output=True, text=True, env=env)
    return p.stdout + p.stderr

# import new seeds
for d in sorted(glob.glob('/tmp/wt*-C*/_seed/[mnpqrs][0-9]')):
    prop = re.search(r'wt\d?-(C\d+)', d).group(1)
    sid = f'{prop}-{os.path.basename(d)}'
    dst = f'{VERIF}/seeded/{sid}'
    rejected = json.load(open(f'{VERIF}/seeded/rejected.json')) if os.path.exists(f'{VERIF}/seeded/rejected.json') else {}
    if sid in rejected:
        continue
    if os.path.exists(dst) or not os.path.exists(f'{d}/patch.diff') or not os.path.exists(f'{d}/demo_test.go'):
        continue
    os.makedirs(dst)
    for f in ('patch.diff', 'demo_test.go', 'NOTES.md'):
        if os.path.exists(f'{d}/{f}'):
            shutil.copy(f'{d}/{f}', dst)
    print('imported', sid)

for dst in sorted(glob.glob(f'{VERIF}/seeded/C*-[mnpqrs]*')):
    sid = os.path.basename(dst)
    if only and sid != only:
        continue
    prop = sid.split('-')[0]
    metaf = f'{dst}/meta.json'
    meta = json.load(open(metaf)) if os.path.exists(metaf) else {}
    had_broken = any(r['exit'] not in (0, 1) for r in meta.get('checks', {}).values())
    if meta.get('confirmed') and not recheck and not only and not had_broken:
        continue
    if prop not in claimed and not allprops and not only:
        continue  # its own check does not exist yet
    dest, run = demo_info(f'{dst}/demo_test.go')
    t0 = time.time()
    first = [prop] if prop in claimed else []
    out = run_eval(dst, dest, run, first, skip_confirm=bool(meta.get('confirmed')))
    conf = meta.get('confirmation') or [l for l in out.splitlines() if l.startswith('CONFIRM')]
    ok = meta.get('confirmed') or (len(conf) == 3 and 'suite-with-change: pass' in conf[0] and 'fail (as required)' in conf[1] and 'pass (as required)' in conf[2])
    checks = {}
    def parse(o):
        for l in o.splitlines():
            m = re.match(r'CHECK (C\d+) (\w+) exit=(\d+) violations=(\d+)', l)
            if m:
                checks[m.group(1)] = {'exit': int(m.group(3)), 'violations': int(m.group(4))}
    parse(out)
    detail = out
    caught = [p for p, r in checks.items() if r['exit'] == 1 and r['violations'] > 0]
    if ok and (not caught or allprops) and not ownonly:
        rest = [p for p in claimed if p not in checks]
        if '--rest' in sys.argv:  # only these other checks (time)
            rest = [p for p in sys.argv[sys.argv.index('--rest') + 1].split(',') if p not in checks]
        if rest:
            o2 = run_eval(dst, dest, run, rest, skip_confirm=True)
            parse(o2)
            detail += o2
            caught = [p for p, r in checks.items() if r['exit'] == 1 and r['violations'] > 0]
    broken = [p for p, r in checks.items() if r['exit'] not in (0, 1) or (r['exit'] == 1 and r['violations'] == 0)]
    notes = open(f'{dst}/NOTES.md').read() if os.path.exists(f'{dst}/NOTES.md') else ''
    meta.update({
        'id': sid, 'breaks_property': prop, 'origin': 'independent sub-agent given only the property text and a scratch worktree',
        'needs_to_manifest': meta.get('needs_to_manifest') or notes[:1500],
        'demo': {'file': 'demo_test.go', 'copy_to': dest, 'run': f'go test -vet=off -count=1 -run \'{run}\' ' + ('./fs' if dest.startswith('fs/') else '.')},
        'confirmation': conf, 'confirmed': bool(ok),
        'what_i_ran': 'tools/seedeval.sh: scratch worktree of /repo HEAD; git apply patch.diff; go test -vet=off -count=1 ./... (must pass); demo with change (must fail) and without (must pass); then ./check.sh <prop> quick with VERIF_REPO=<worktree> in an isolated copy of /verif',
        'checks': checks, 'caught_by': sorted(caught), 'repo_head': subprocess.run(['git', '-C', '/repo', 'rev-parse', '--short', 'HEAD'], capture_output=True, text=True).stdout.strip(),
    })
    json.dump(meta, open(metaf, 'w'), indent=1)
    open(f'{dst}/eval.log', 'w').write(detail)
    print(f'{sid}: confirmed={ok} caught_by={sorted(caught)} broken={broken} ({time.time()-t0:.0f}s)', flush=True)
