#!/bin/bash
# usage: tools/seedeval.sh <dir with patch.diff + demo_test.go> <demo dest (relative path in repo)> <demo -run regexp> <prop> [<prop>...]
# Confirms a seeded change in a scratch worktree of /repo (suite passes with it, demo fails with it and
# passes without it) and runs the quick checks of the given properties against the changed tree,
# in an isolated copy of /verif so that evidence and binaries of /verif are not disturbed.
# Prints one summary line per step. Nothing in /repo or /verif is modified.
set -u
export GOFLAGS=-mod=mod GOPROXY=off GOSUMDB=off GOTOOLCHAIN=local
SD=$(cd "$1" && pwd); DEST=$2; RUN=$3; shift 3
TIER=${SEED_TIER:-quick}
WT=$(mktemp -d /tmp/se-wt.XXXXXX); rmdir "$WT"
VS=$(mktemp -d /dev/shm/se-verif.XXXXXX)
cleanup() { git -C /repo worktree remove --force "$WT" >/dev/null 2>&1; rm -rf "$WT" "$VS"; git -C /repo worktree prune; }
trap cleanup EXIT
git -C /repo worktree add -q --detach "$WT" HEAD || exit 2
cd "$WT"
APPLY="git apply"
if ! git apply --check "$SD/patch.diff" 2>/dev/null; then
  if git apply --3way --check "$SD/patch.diff" 2>/dev/null; then APPLY="git apply --3way"; else echo "RESULT patch does not apply"; exit 2; fi
fi
$APPLY "$SD/patch.diff" >/dev/null 2>&1; git reset -q 2>/dev/null
if [ -z "${SEED_SKIP_CONFIRM:-}" ]; then
  if go build ./... >/dev/null 2>&1 && go test -vet=off -count=1 ./... >"$VS/suite.log" 2>&1; then echo "CONFIRM suite-with-change: pass"; else echo "CONFIRM suite-with-change: FAIL"; tail -5 "$VS/suite.log"; fi
  if [ -f "$SD/demo_test.go" ]; then
  cp "$SD/demo_test.go" "$WT/$DEST"
  if (cd "$(dirname "$WT/$DEST")" && go test -vet=off -count=1 -run "$RUN" . >"$VS/demo1.log" 2>&1); then echo "CONFIRM demo-with-change: pass (NOT a valid seed)"; else echo "CONFIRM demo-with-change: fail (as required)"; fi
  git checkout -q -- . 
  if (cd "$(dirname "$WT/$DEST")" && go test -vet=off -count=1 -run "$RUN" . >"$VS/demo0.log" 2>&1); then echo "CONFIRM demo-without-change: pass (as required)"; else echo "CONFIRM demo-without-change: FAIL (NOT a valid seed)"; tail -5 "$VS/demo0.log"; fi
  rm -f "$WT/$DEST"
  fi
  $APPLY "$SD/patch.diff" >/dev/null 2>&1; git reset -q 2>/dev/null
fi
# committed state of /verif only (the working tree may be mid-edit)
git -C /verif archive HEAD | tar -x -C "$VS" --exclude=seeded --exclude=evidence
mkdir -p "$VS/bin" "$VS/evidence" "$VS/replays"
cp /verif/bin/instrument "$VS/bin/" 2>/dev/null
for P in "$@"; do
  S=$(date +%s)
  OUT=$(cd "$VS" && VERIF_DIR="$VS" VERIF_REPO="$WT" ./check.sh "$P" "$TIER" 2>&1); RC=$?
  V=$(echo "$OUT" | grep -c '^VIOLATION')
  echo "CHECK $P $TIER exit=$RC violations=$V t=$(( $(date +%s)-S ))s"
  echo "$OUT" | grep -A2 '^VIOLATION' | head -6 | cut -c1-600
  if [ $RC -ne 0 ] && [ $V -eq 0 ]; then echo "$OUT" | tail -8 | cut -c1-400; fi
done
