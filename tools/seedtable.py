#!/usr/bin/env python3
"""Prints the markdown table of seeded changes from /verif/seeded/*/meta.json (verified facts only)."""
import json, glob, os, re
rows=[]
for d in sorted(glob.glob('/verif/seeded/C*-[mnpqrs]*')):
    mf=f'{d}/meta.json'
    if not os.path.exists(mf): continue
    m=json.load(open(mf))
    notes=open(f'{d}/NOTES.md').read() if os.path.exists(f'{d}/NOTES.md') else ''
    # first meaningful line of the notes as the description
    desc=''
    for l in notes.splitlines():
        l=l.strip().lstrip('#').strip()
        if len(l)>25 and not l.lower().startswith(('seed','c0','c1','notes')):
            desc=l; break
    if not desc: desc=notes.strip().splitlines()[0] if notes.strip() else ''
    desc=re.sub(r'\s+',' ',desc)[:170].replace('|','/')
    ran=sorted(m.get('checks',{}).keys())
    rows.append((m['id'], desc, ', '.join(m.get('caught_by',[])) or '**none**', 'yes' if m.get('confirmed') else 'NO', len(ran)))
print('| seed | change (first line of its NOTES.md) | caught by (quick checks that were run against it and reported a violation) | confirmed | checks run |')
print('|------|------|------|------|------|')
for r in rows: print('| %s | %s | %s | %s | %d |' % r)
