#!/bin/bash
# validates MANIFEST.json and every evidence file against the schemas
python3-vt - <<'PY'
import json,jsonschema,glob,sys
ok=True
try:
    jsonschema.validate(json.load(open('/verif/MANIFEST.json')),json.load(open('/root/.vp/MANIFEST.schema.json')))
except Exception as e:
    print('MANIFEST:',e); ok=False
es=json.load(open('/root/.vp/EVIDENCE.schema.json'))
for f in sorted(glob.glob('/verif/evidence/*.json')):
    try: jsonschema.validate(json.load(open(f)),es)
    except Exception as e: print(f,str(e)[:300]); ok=False
print('valid' if ok else 'INVALID')
PY
